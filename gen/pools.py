"""Finite string pools (DESIGN.md 3.3).  String *content* is never symbolic in
sx; clauses that are only about strings are enumerated over these pools and
labelled as enumeration in the evidence.

The pools hit every similarity class nbdime's differ distinguishes: identical;
ratio > 0.95; 0.7 < ratio <= 0.95; ratio < 0.7 at length >= 10; shorter than 10
characters (always "similar"); empty; with / without final newline; \\r\\n, \\r
and each of \\v \\f \\x1c \\x1d \\x1e \\x85 U+2028 U+2029; base64-looking >= 64
chars; pointer reprs differing only in the address; multi-line texts sharing a
prefix, a suffix, or nothing; conflict-marker-looking lines; lines reading
"\\ No newline at end of file"; non-ASCII text.
"""

BASE = "import os\nx = compute(1)\nprint(x)\n"

# generic text pool for string diff/patch round trips (C02, C11, C15-like)
TEXT = [
    "",
    "a",
    "abc",
    "abd",
    "\n",
    "a\n",
    "a\nb",
    "a\nb\n",
    BASE,
    "import os\nx = compute(2)\nprint(x)\n",            # one line edited slightly (>0.95 on the line? no: ~0.93)
    "import os\nx = compute(1)\nprint(x)",               # final newline dropped
    "import os\nimport sys\nx = compute(1)\nprint(x)\n",  # line inserted
    "import os\nprint(x)\n",                             # line removed
    "x = compute(1)\nprint(x)\nimport os\n",             # line moved
    "completely different text here\nnothing in common\n",
    "import os\r\nx = compute(1)\r\nprint(x)\r\n",        # CRLF
    "import os\rx = compute(1)\rprint(x)\r",             # CR
    "a\x0bb\x0cc\n",                                     # VT FF
    "a\x1cb\x1dc\x1ed\n",                                # FS GS RS
    "a\x85b c d",                              # NEL LS PS
    "a\x0bb\x0cX\n",
    "a\x85b X d",
    "<<<<<<< local\nx\n=======\ny\n>>>>>>> remote\n",    # marker-looking
    "x\n\\ No newline at end of file\ny\n",
    "café 中文 \U0001f600\nsecond ü line\n",
    "café 中文 \U0001f600\nsecond ü LINE\n",
    "the quick brown fox jumps over the lazy dog\n" * 2,
    "the quick brown fox jumps over the lazy cat\n" * 2,   # > 0.95 similar lines
    "the quick red fox leaps over a lazy dog\n" * 2,       # 0.7 .. 0.95
    "iVBORw0KGgoAAAANSUhEUgAAAAEAAAABCAYAAAAfFcSJAAAADUlEQVR42mNkYPhfDwAChwGA60e6kgAAAABJRU5ErkJggg==",
    "<matplotlib.figure.Figure at 0x7f1234567890>",
    "<matplotlib.figure.Figure at 0x7fabcdef0123>",
    "a\n\nb\n\n\n",
    "\n\n",
    "x = 1",                      # single line without newline ...
    "x = 12\ny = 2",              # ... similar first line, lines appended
    "x = 1\n",
    "a = 1\x0bb = 2\x0cc = 3\nd = 4\u2028e = 5\n",
    "a = 1\x0bb = 2\x0cc = 3\nd = 4\u2028e = 55\n",   # edit after the exotic separators
]

# source variants for notebook cells; index 0 is the base text of a cell
SOURCES = {
    "s": ["x = 1\ny = 2\nz = 3\n",
          "x = 1\ny = 22\nz = 3\n",            # edit middle line (local-style)
          "x = 1\ny = 2\nz = 33\n",            # edit last line
          "x = 1\ny = 222\nz = 3\n",           # other edit of the middle line
          "x = 1\ny = 2\nz = 3",               # drop final newline
          "w = 0\nx = 1\ny = 2\nz = 3\n",      # insert first
          "x = 1\ny = 2\nz = 3\nq = 4\n",      # append
          "totally different source text\nwith nothing shared at all\n",
          ""],
}
