"""Generic JSON document generator for sx harnesses (DESIGN.md 3.1).

Shapes (container kind, list lengths, key sets, nesting) and pooled string
contents are chosen by E.choice forks (systematic enumeration inside the
stated bound); every scalar leaf is a fresh solver variable.
"""

# strings used as *elements* of generic documents (kept small; the string
# clauses proper use the pools of gen/pools.py)
ELEM_STRINGS = ["", "x", "ab\ncd\n", "ab\ncX\n"]

KEYS = ("a", "b", "c")


def leaf(E, name, leafkind):
    if leafkind == "scalar":
        return E.scalar(name)
    if leafkind == "int":
        return E.int(name)
    if leafkind == "num":            # int or float or bool, never null
        return E.scalar(name, tags=(1, 2, 3))
    raise ValueError(leafkind)


def gen_value(E, name, depth, width, leafkind="scalar", strings=ELEM_STRINGS, kinds=None):
    """A JSON value of nesting <= depth."""
    if kinds is None:
        kinds = ["X"]
        if strings:
            kinds.append("S")
        if depth > 0:
            kinds += ["L", "D"]
    k = kinds[E.choice(name + "?", len(kinds))] if len(kinds) > 1 else kinds[0]
    if k == "X":
        return leaf(E, name, leafkind)
    if k == "S":
        return strings[E.choice(name + "$", len(strings))]
    if k == "L":
        return gen_list(E, name, depth - 1, width, leafkind, strings)
    return gen_dict(E, name, depth - 1, width, leafkind, strings)


def gen_list(E, name, depth, width, leafkind="scalar", strings=ELEM_STRINGS, n=None, kinds=None):
    if n is None:
        n = E.choice(name + "#", width + 1)
    return [gen_value(E, "%s.%d" % (name, i), depth, width, leafkind, strings, kinds)
            for i in range(n)]


def gen_dict(E, name, depth, width, leafkind="scalar", strings=ELEM_STRINGS, keys=None, kinds=None):
    if keys is None:
        keys = [k for k in KEYS[:width] if E.choice("%s.%s!" % (name, k), 2)]
    return {k: gen_value(E, "%s.%s" % (name, k), depth, width, leafkind, strings, kinds)
            for k in keys}


def leaves(doc):
    """All scalar (non-str, non-container) leaves of a document."""
    if isinstance(doc, dict):
        for v in doc.values():
            for x in leaves(v):
                yield x
    elif isinstance(doc, (list, tuple)):
        for v in doc:
            for x in leaves(v):
                yield x
    elif not isinstance(doc, str):
        yield doc


# ------------------------------------------------------------------ explicit
# element alphabets: a descriptor is ('X',) | ('S', text) | ('L', [desc...]) |
# ('D', {key: desc})
X = ("X",)


def S(t):
    return ("S", t)


def L(*ds):
    return ("L", list(ds))


def D(**kw):
    return ("D", dict(kw))


ALTS_QUICK = [X, S(""), S("ab\ncd\n"), L(), L(X), L(X, X), D(), D(a=X), D(a=X, b=X)]
ALTS_DEEP = ALTS_QUICK + [L(L(X)), L(D(a=X)), D(a=L(X)), D(a=D(b=X)), S("ab\ncX\n")]


def build(E, name, desc, leafkind="scalar"):
    k = desc[0]
    if k == "X":
        return leaf(E, name, leafkind)
    if k == "S":
        return desc[1]
    if k == "L":
        return [build(E, "%s.%d" % (name, i), d, leafkind) for i, d in enumerate(desc[1])]
    return {key: build(E, "%s.%s" % (name, key), d, leafkind) for key, d in desc[1].items()}


def pick(E, name, alts, leafkind="scalar"):
    return build(E, name, alts[E.choice(name + "?", len(alts))], leafkind)


def pick_list(E, name, alts, maxlen, leafkind="scalar", n=None):
    if n is None:
        n = E.choice(name + "#", maxlen + 1)
    return [pick(E, "%s.%d" % (name, i), alts, leafkind) for i in range(n)]


def pick_dict(E, name, alts, keys, leafkind="scalar"):
    out = {}
    for k in keys:
        c = E.choice("%s.%s?" % (name, k), len(alts) + 1)
        if c:
            out[k] = build(E, "%s.%s" % (name, k), alts[c - 1], leafkind)
    return out

ALTS_X = [X]
ALTS_MERGE = [X, L(X), L(X, X), D(a=X), S("ab\ncd\n"), S("ab\ncX\n")]
ALTS_MERGE_S = [X, L(X), D(a=X)]
ALTS_INTKEY = [X, D(a=X), ("D", {"7": X, "k": X})]
