"""Generic JSON document generator for sx harnesses (DESIGN.md 3.1).

Shapes (container kind, list lengths, key sets, nesting) and pooled string
contents are chosen by E.choice forks (systematic enumeration inside the
stated bound); every scalar leaf is a fresh solver variable.
"""

# strings used as *elements* of generic documents (kept small; the string
# clauses proper use the pools of gen/pools.py)
ELEM_STRINGS = ["", "x", "ab\ncd\n", "ab\ncX\n"]

KEYS = ("a", "b", "c")


def leaf(E, name, leafkind):
    if leafkind == "scalar":
        return E.scalar(name)
    if leafkind == "int":
        return E.int(name)
    if leafkind == "num":            # int or float or bool, never null
        return E.scalar(name, tags=(1, 2, 3))
    raise ValueError(leafkind)


def gen_value(E, name, depth, width, leafkind="scalar", strings=ELEM_STRINGS, kinds=None):
    """A JSON value of nesting <= depth."""
    if kinds is None:
        kinds = ["X"]
        if strings:
            kinds.append("S")
        if depth > 0:
            kinds += ["L", "D"]
    k = kinds[E.choice(name + "?", len(kinds))] if len(kinds) > 1 else kinds[0]
    if k == "X":
        return leaf(E, name, leafkind)
    if k == "S":
        return strings[E.choice(name + "$", len(strings))]
    if k == "L":
        return gen_list(E, name, depth - 1, width, leafkind, strings)
    return gen_dict(E, name, depth - 1, width, leafkind, strings)


def gen_list(E, name, depth, width, leafkind="scalar", strings=ELEM_STRINGS, n=None, kinds=None):
    if n is None:
        n = E.choice(name + "#", width + 1)
    return [gen_value(E, "%s.%d" % (name, i), depth, width, leafkind, strings, kinds)
            for i in range(n)]


def gen_dict(E, name, depth, width, leafkind="scalar", strings=ELEM_STRINGS, keys=None, kinds=None):
    if keys is None:
        keys = [k for k in KEYS[:width] if E.choice("%s.%s!" % (name, k), 2)]
    return {k: gen_value(E, "%s.%s" % (name, k), depth, width, leafkind, strings, kinds)
            for k in keys}


def leaves(doc):
    """All scalar (non-str, non-container) leaves of a document."""
    if isinstance(doc, dict):
        for v in doc.values():
            for x in leaves(v):
                yield x
    elif isinstance(doc, (list, tuple)):
        for v in doc:
            for x in leaves(v):
                yield x
    elif not isinstance(doc, str):
        yield doc
