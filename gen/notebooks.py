"""Notebook generator for sx harnesses (DESIGN.md 3.2): skeleton + edit script.

A base notebook is a list of cell *templates* (concrete structure and pooled
strings) whose scalar leaves -- execution counts, metadata values, numbers in
JSON payloads, nbformat_minor -- are solver variables.  Derived notebooks
apply one *action* per base cell and an optional insertion per gap; actions
are picked with E.choice (enumerated), so local and remote scripts range over
the full product inside the stated bound.

Everything returned is plain dict / list / str / symbolic leaves; harnesses
wrap with nbformat.from_dict.
"""
import copy

from sx import values as V

# --------------------------------------------------------------------- pools
SRC = {
    # family -> [base, variants ...]
    "A": ["x = 1\ny = 2\nz = 3\n",
          "x = 1\ny = 22\nz = 3\n",                 # 1 edit middle line
          "x = 1\ny = 222\nz = 3\n",                # 2 edit the same line differently
          "x = 1\ny = 2\nz = 3\nprint(x + y + z)\n",   # 3 append a line
          "x = 1\ny = 2\nz = 3",                    # 4 drop final newline
          "x = 10\ny = 2\nz = 3\n",                 # 5 edit first line
          "completely unrelated replacement text\nwith nothing shared at all\n",  # 6 dissimilar
          "",                                      # 7 emptied
          "x = 1\ninserted = 0\ny = 2\nz = 3\n",      # 8 insert a line before 'y = 2'
          "x = 1\nz = 3\n",                           # 9 delete the line 'y = 2'
          "x = 1\ninserted = 0\ny = 22\nz = 3\n",     # 10 insert a line before 'y = 2' and edit that line
          "x = 1\nother = 5\ny = 2\nz = 3\n",         # 11 another line inserted at the same place
          "x = 1\ny = 2\nz = 3  \n",                  # 12 trailing blanks on the last line
          "x = 1\ny = 2\nz = 3\t\n",                  # 13 a trailing tab on the last line
          "x = 1\r\ny = 2\r\nz = 3\r\n",              # 14 only the line terminators change (LF -> CRLF)
          "x = 1\r\ny = 22\r\nz = 3\n"],               # 15 CRLF on two lines, one of them edited as well
    # an insertion before a line together with a character-level patch of that line
    "Q": ["a\nprint(x)     pass\nz\n",
          "a\nprint(x)     pass #ed\neta     pass\nz\n",
          "a\ngamma print(x)\nprint(x)     pass\nz\n",
          "a\nprint(x)     pass #ed\nz\n",
          "a\nnew line\neps print(x)     pass\nz\n",
          "a\nprint(x)     pass !\nz\n", "a\nz\n", "a\nprint(x)     pass\nz\nlast\n"],
    # a cell whose source is empty in the base
    "E": ["", "alpha = 1\nbeta = 2\n", "alpha = 1\ngamma = 3\n", "alpha = 1\nbeta = 2\ndelta = 4\n",
          "alpha = 1\nbeta = 2", "zeta = 0\nalpha = 1\nbeta = 2\n", "something else entirely in here\n", ""],
    "B": ["import numpy as np\nnp.random.seed(0)\ndata = np.arange(10)\n",
          "import numpy as np\nnp.random.seed(1)\ndata = np.arange(10)\n",
          "import numpy as np\nnp.random.seed(42)\ndata = np.arange(10)\n",
          "import numpy as np\nnp.random.seed(0)\ndata = np.arange(10)\ndata.sum()\n",
          "import numpy as np\nnp.random.seed(0)\ndata = np.arange(10)",
          "import numpy\nnp.random.seed(0)\ndata = np.arange(10)\n",
          "def f(a, b):\n    return a * b - 7\n\nprint(f(3, 4))\n",
          ""],
    "M": ["# Heading\n\nSome *markdown* text with ![img](attachment:pic.png)\n",
          "# Heading\n\nSome **markdown** text with ![img](attachment:pic.png)\n",
          "# Heading\n\nSome _markdown_ text with ![img](attachment:pic.png)\n",
          "# Heading\n\nSome *markdown* text with ![img](attachment:pic.png)\n\nMore.\n",
          "# Heading\n\nSome *markdown* text with ![img](attachment:pic.png)",
          "# HEADING\n\nSome *markdown* text with ![img](attachment:pic.png)\n",
          "An entirely different paragraph, unrelated to the original one.\n",
          ""],
    "R": ["raw cell content\nsecond raw line\n",
          "raw cell content\nsecond RAW line\n",
          "raw cell content\nsecond Raw line\n",
          "raw cell content\nsecond raw line\nthird\n",
          "raw cell content\nsecond raw line",
          "Raw cell content\nsecond raw line\n",
          "nothing alike whatsoever, really not\n",
          ""],
    # pathological text: lines that read like tool output / markers / non-ASCII
    "P": ["keep\n\\ No newline at end of file\n\\ No newline at end of file\n\\ No newline at end of file\nend\n",
          "keep\n\\ No newline at end of file\n\\ No newline at end of file\n\\ No newline at end of file\nEND\n",
          "keep\n\\ No newline at end of file\n\\ No newline at end of file\n\\ No newline at end of file\nEnd\n",
          "keep\n\\ No newline at end of file\n\\ No newline at end of file\n\\ No newline at end of file\nend\nmore\n",
          "keep\n\\ No newline at end of file\n\\ No newline at end of file\n\\ No newline at end of file\nend",
          "<<<<<<< local\ncaf\u00e9 \u4e2d\u6587\n=======\n>>>>>>> remote\n\\ No newline at end of file\nend\n",
          "something else entirely, nothing in common at all\n",
          ""],
    # ten lines: two separate regions can conflict in one cell (git merge-file
    # then exits with status 2)
    "L": ["".join("line %d = %d\n" % (i, i) for i in range(1, 11)),
          "".join("line %d = %s\n" % (i, "L1" if i in (1, 9) else i) for i in range(1, 11)),     # 1: lines 1 and 9, one way
          "".join("line %d = %s\n" % (i, "R2" if i in (1, 9) else i) for i in range(1, 11)),     # 2: lines 1 and 9, other way
          "".join("line %d = %d\n" % (i, i) for i in range(1, 11)) + "appended = 11\n",         # 3: append
          "".join("line %d = %d\n" % (i, i) for i in range(1, 11))[:-1],                        # 4: no final newline
          "".join("line %d = %s\n" % (i, "one" if i == 1 else i) for i in range(1, 11)),         # 5: first line only
          "nothing of the original ten lines is left in this replacement text\nat all\n",       # 6: dissimilar
          "",                                                                                   # 7: emptied
          "".join(("before five = 0\n" if i == 5 else "") + "line %d = %d\n" % (i, i) for i in range(1, 11)),  # 8: insert before line 5
          "".join("line %d = %d\n" % (i, i) for i in range(1, 11) if i != 5)],                   # 9: delete line 5
    # line separators that str.splitlines honours beyond \n: VT FF FS GS RS NEL LS PS
    "U": ["a = 1\x0bb = 2\x0cc = 3\nd = 4\u2028e = 5\u2029f = 6\x85g = 7\n",
          "a = 1\x0bb = 2\x0cc = 3\nd = 4\u2028e = 55\u2029f = 6\x85g = 7\n",
          "a = 1\x0bb = 2\x0cc = 3\nd = 4\u2028e = 555\u2029f = 6\x85g = 7\n",
          "a = 1\x0bb = 2\x0cc = 3\nd = 4\u2028e = 5\u2029f = 6\x85g = 7\nh = 8\x1ci = 9\n",
          "a = 1\x0bb = 2\x0cc = 3\nd = 4\u2028e = 5\u2029f = 6\x85g = 7",
          "a = 10\x0bb = 2\x0cc = 3\nd = 4\u2028e = 5\u2029f = 6\x85g = 77\n",
          "no separators of that kind in this replacement, which is dissimilar\n",
          "",
          "a = 1\x0bnew = 0\x0bb = 2\x0cc = 3\nd = 4\u2028e = 5\u2029f = 6\x85g = 7\n",
          "a = 1\x0bb = 2\x0cc = 3\nd = 4\u2029f = 6\x85g = 7\n"],
    "S": ["a=1\n", "a=2\n", "a=3\n", "a=1\nb\n", "a=1", "b=1\n", "zzzzzzzzzzzzzzzzzzzzzzz\n", "",
          "n\na=1\n", "\n"],   # short (<10 chars): always 'similar'
}

# inserted cells: N1/N1s are mutually similar (ratio > 0.7) but not identical,
# N2 is dissimilar to everything
NEW_SRC = {
    "N1": "def helper(values):\n    return sorted(values)[:3]\n",
    "N1s": "def helper(values):\n    return sorted(values)[:5]\n",
    "N2": "plt.figure(figsize=(4, 4))\nplt.plot(range(10))\nplt.show()\n",
    "Nm": "### A new markdown section\n\nwith a sentence of explanation.\n",
    "N3": "class Widget(object):\n    colour = 'green'\n",
    "N4": "%%bash\nls -la /srv/data | wc -l\n",
    "N5": "assert result is not None, 'no result'\nreport(result)\n",
}

STREAM = ["1\n2\n3\n", "1\n2\n4\n", "1\n2\n5\n", "1\n2\n3\n4\n", "entirely other output text, long enough\n"]
PLAIN = ["array([0, 1, 2])", "array([0, 1, 3])", "array([0, 1, 4])", "<Figure at 0x7f1234567890>"]
PLAIN_PTR = "<Figure at 0x7fabcdef0123>"
B64S = ["QkFTRQ==", "TE9DQUw=", "UkVNT1RF"]
B64 = ["iVBORw0KGgoAAAANSUhEUgAAAAEAAAABCAYAAAAfFcSJAAAADUlEQVR42mNkYPhfDwAChwGA60e6kgAAAABJRU5ErkJggg==",
       "iVBORw0KGgoAAAANSUhEUgAAAAEAAAABCAYAAAAfFcSJAAAADUlEQVR42mNkYPhfDwAChwGA60e6kgAAAABJRU5ErkJgXX==",
       "iVBORw0KGgoAAAANSUhEUgAAAAEAAAABCAYAAAAfFcSJAAAADUlEQVR42mNkYPhfDwAChwGA60e6kgAAAABJRU5ErkJgYY=="]
TRACEBACK = [["Traceback (most recent call last)", "ZeroDivisionError: division by zero"],
             ["Traceback (most recent call last)", "ZeroDivisionError: division by 0"]]

IDS = ["c0ffee00", "c0ffee01", "c0ffee02", "c0ffee03"]
NEW_IDS = {"l": ["1dea0000", "1dea0001", "1dea0002"], "r": ["feed0000", "feed0001", "feed0002"],
           "x": ["abcd0000", "abcd0001", "abcd0002"]}


class Ctx(object):
    """Per-path generation context: fresh-name counter, id mode, options."""

    def __init__(self, E, with_ids, sym=("ec", "md", "json", "minor"), scalar_tags=(0, 1, 2, 3)):
        self.E = E
        self.with_ids = with_ids
        self.sym = set(sym)
        self.n = 0
        self.scalar_tags = scalar_tags
        self.fresh_leaves = {}     # first letter of tag -> [leaf, ...]

    def fresh(self, kind, tag):
        self.n += 1
        return "%s_%s_%d" % (kind, tag, self.n)

    def ec(self, tag):
        """execution_count: null or int."""
        if "ec" in self.sym:
            return self._rec(tag, self.E.scalar(self.fresh("ec", tag), tags=(V.NULL, V.INT), lo=0))
        return None

    def _rec(self, tag, leaf):
        self.fresh_leaves.setdefault(tag[0], []).append(leaf)
        return leaf

    def md(self, tag):
        """a metadata value: any JSON scalar."""
        if "md" in self.sym:
            return self._rec(tag, self.E.scalar(self.fresh("md", tag), tags=self.scalar_tags))
        return 7

    def num(self, tag):
        if "json" in self.sym:
            return self._rec(tag, self.E.scalar(self.fresh("js", tag), tags=self.scalar_tags))
        return 3


# ----------------------------------------------------------------- templates
def mk_output(ctx, kind, tag):
    if kind == "stream":
        return {"output_type": "stream", "name": "stdout", "text": STREAM[0]}
    if kind == "stderr":
        return {"output_type": "stream", "name": "stderr", "text": STREAM[0]}
    if kind == "error":
        return {"output_type": "error", "ename": "ZeroDivisionError",
                "evalue": "division by zero", "traceback": list(TRACEBACK[0])}
    if kind == "result":
        return {"output_type": "execute_result", "execution_count": ctx.ec(tag),
                "data": {"text/plain": PLAIN[0]}, "metadata": {}}
    if kind == "result_md":
        return {"output_type": "execute_result", "execution_count": ctx.ec(tag),
                "data": {"text/plain": PLAIN[0]}, "metadata": {"om": ctx.md(tag)}}
    if kind == "display":
        return {"output_type": "display_data",
                "data": {"image/png": B64[0], "text/plain": PLAIN[3]},
                "metadata": {"image/png": {"width": ctx.md(tag)}}}
    if kind == "result_img":
        # a short image payload: compared as text, so two different images
        # still count as "the same output, edited" (a conflict on the data dict)
        return {"output_type": "execute_result", "execution_count": ctx.ec(tag),
                "data": {"image/png": B64S[0], "text/plain": "fig"}, "metadata": {}}
    if kind == "display_empty":
        return {"output_type": "display_data", "data": {}, "metadata": {}}
    if kind == "html_upper":
        # mime keys are not required to be lower case
        return {"output_type": "display_data",
                "data": {"text/HTML": "<b>bold</b>\n<i>it</i>\n", "text/plain": "bold it"}, "metadata": {}}
    if kind == "json_vnd":
        # a vendor JSON mime type: not diffed recursively, replaced as a whole
        return {"output_type": "display_data",
                "data": {"application/vnd.custom.v1+json": {"k": ctx.num(tag), "l": [ctx.num(tag), 2]},
                         "text/plain": "<vendor JSON>"}, "metadata": {}}
    if kind == "json_obj":
        return {"output_type": "display_data",
                "data": {"application/json": {"k": ctx.num(tag), "l": [1, 2]},
                         "text/plain": "<JSON>"}, "metadata": {}}
    if kind == "json_lol":
        return {"output_type": "display_data",
                "data": {"application/json": [[ctx.num(tag)], [2, 3]],
                         "text/plain": "<JSON>"}, "metadata": {}}
    if kind == "json_loo":
        return {"output_type": "display_data",
                "data": {"application/json": [{"k": ctx.num(tag)}, {"k": 2}],
                         "text/plain": "<JSON>"}, "metadata": {}}
    if kind == "json_scalar":
        return {"output_type": "display_data",
                "data": {"application/json": ctx.num(tag), "text/plain": "<JSON>"},
                "metadata": {}}
    raise ValueError(kind)


def mk_cell(ctx, tmpl, tag, idx=None):
    """tmpl: dict(type=code|markdown|raw, src=family, outputs=[kinds], md=n,
    att=bool)."""
    t = tmpl["type"]
    md = {}
    for i in range(tmpl.get("md", 0)):
        md["k%d" % i] = ctx.md(tag)
    if tmpl.get("collapsed"):
        md["collapsed"] = False
    if tmpl.get("tags"):
        md["tags"] = list(tmpl["tags"])
    if tmpl.get("scrolled"):
        md["scrolled"] = False
    if tmpl.get("lol"):
        md["lol"] = [[ctx.md(tag)], [2, 3]]
    if tmpl.get("stale"):
        md["nbdime-conflicts"] = {} if tmpl["stale"] == "empty" else {"local_diff": [], "remote_diff": []}
    if tmpl.get("nums"):
        md["nums"] = [ctx.md(tag)]
    cell = {"cell_type": t, "metadata": md,
            "source": "" if tmpl.get("empty") else (tmpl.get("text") or SRC[tmpl["src"]][0])}
    if t == "code":
        cell["execution_count"] = ctx.ec(tag)
        cell["outputs"] = [mk_output(ctx, k, tag) for k in tmpl.get("outputs", [])]
    if tmpl.get("intkeys"):
        md["2024"] = ctx.md(tag)
        md["note"] = ctx.md(tag)
    if t == "markdown" and tmpl.get("att"):
        if tmpl["att"] is True:
            cell["attachments"] = {"pic.png": {"image/png": B64[0]}}
        elif tmpl["att"] == "stale":
            cell["attachments"] = {"pic.png": {"image/png": B64[0]}, "LOCAL_pic.png": {"image/png": B64[0]}}
        elif tmpl["att"] == "intlike":
            cell["attachments"] = {"1": {"image/png": B64[0]}, "pic.png": {"image/png": B64[0]}}
        else:
            cell["attachments"] = {"pic.png": {"image/png": B64[1]}, "extra.png": {"image/png": B64[0]}}
    if ctx.with_ids:
        cell["id"] = tmpl.get("id") or (IDS[idx] if idx is not None else NEW_IDS["x"][0])
    cell["_src"] = tmpl.get("src")
    return cell


def strip_private(obj):
    if isinstance(obj, dict):
        return {k: strip_private(v) for k, v in obj.items() if not k.startswith("_")}
    if isinstance(obj, list):
        return [strip_private(v) for v in obj]
    return obj


TEMPLATES = {
    "codeA": dict(type="code", src="A", outputs=["stream"], md=1),
    "codeB": dict(type="code", src="B", outputs=["result"], md=0, collapsed=True),
    "codeA0": dict(type="code", src="A", outputs=[], md=0),
    "codeErr": dict(type="code", src="B", outputs=["error"], md=0),
    "codeDisp": dict(type="code", src="A", outputs=["display"], md=0),
    "codeRes2": dict(type="code", src="B", outputs=["stream", "result_md"], md=1),
    "codeImgS": dict(type="code", src="A", outputs=["result_img"], md=0),
    "codeJobj": dict(type="code", src="A", outputs=["json_obj"], md=0),
    "codeJlol": dict(type="code", src="A", outputs=["json_lol"], md=0),
    "codeJloo": dict(type="code", src="B", outputs=["json_loo"], md=0),
    "codeJsc": dict(type="code", src="B", outputs=["json_scalar"], md=0),
    "codeJvnd": dict(type="code", src="A", outputs=["json_vnd"], md=0),
    "codeNul": dict(type="code", src="A", text="x = 1\ny = '\x00'\nz = 3\n", outputs=[], md=0),
    "codeS": dict(type="code", src="S", outputs=["stream"], md=0),
    "codeS1": dict(type="code", src="S", text="p=1\n", outputs=[], md=0),
    "codeS2": dict(type="code", src="S", text="q=2\n", outputs=[], md=0),
    "codeS3": dict(type="code", src="S", text="r=3\n", outputs=[], md=0),
    "codeP": dict(type="code", src="P", outputs=[], md=0),
    "codeT": dict(type="code", src="B", outputs=["stream"], md=0, tags=["a", "b"]),
    "codeL": dict(type="code", src="L", outputs=[], md=0),
    "codeU": dict(type="code", src="U", outputs=["stream"], md=0),
    "codeEmp": dict(type="code", src="A", outputs=["display_empty", "stream"], md=0),
    "codeMime": dict(type="code", src="B", outputs=["html_upper"], md=0),
    "codeTr": dict(type="code", src="B", outputs=["result"], md=0, collapsed=True, scrolled=True),
    "codeLol": dict(type="code", src="A", outputs=[], md=0, lol=True),
    "codeStale": dict(type="code", src="A", outputs=[], md=1, stale=True),
    "codeStale0": dict(type="code", src="A", outputs=[], md=1, stale="empty"),
    "codeE": dict(type="code", src="E", outputs=[], md=0),
    "codeQ": dict(type="code", src="Q", outputs=[], md=0),
    "mdStale": dict(type="markdown", src="M", md=0, att="stale"),
    "codeNums": dict(type="code", src="B", outputs=[], md=0, nums=True),
    "md": dict(type="markdown", src="M", md=1, att=False),
    "mdAtt": dict(type="markdown", src="M", md=0, att=True),
    # attachment names / metadata keys that look like integers
    "mdAtt1": dict(type="markdown", src="M", md=0, att="intlike", intkeys=True),
    "raw": dict(type="raw", src="R", md=1),
}

NEW_TEMPLATES = {
    "N1": dict(type="code", text=NEW_SRC["N1"], outputs=[], md=0),
    "N1s": dict(type="code", text=NEW_SRC["N1s"], outputs=["stream"], md=1),
    "N2": dict(type="code", text=NEW_SRC["N2"], outputs=[], md=0),
    "Nm": dict(type="markdown", text=NEW_SRC["Nm"], md=0),
    "N3": dict(type="code", text=NEW_SRC["N3"], outputs=[], md=0),
    "N4": dict(type="raw", text=NEW_SRC["N4"], md=0),
    "N5": dict(type="code", text=NEW_SRC["N5"], outputs=[], md=0),
    "Ns": dict(type="code", text="s=4\n", outputs=[], md=0),
    # the same id on both sides but different cell types (only meaningful with ids)
    "Nxc": dict(type="code", text="shared id, code flavour\nsecond line\n", outputs=[], md=0, fixed_id="dup00000"),
    "Nxm": dict(type="markdown", text="shared id, code flavour\nsecond line\n", md=0, fixed_id="dup00000"),
    # the same id, one copy with an empty source and one with text
    "Nxe": dict(type="code", text="", outputs=[], md=0, fixed_id="dup00001", empty=True),
    "Nxt": dict(type="code", text="filled = True\nprint(filled)\n", outputs=[], md=0, fixed_id="dup00001"),
    # similar markdown cells whose attachments differ (same name, other content / other name)
    "NmA": dict(type="markdown", text=NEW_SRC["Nm"], md=0, att=True),
    "NmB": dict(type="markdown", text=NEW_SRC["Nm"] + "More.\n", md=1, att="other"),
}


# ------------------------------------------------------------------- actions
# action name -> applies to cell types
CODE_ACTIONS = ["keep", "del", "src1", "src2", "src3", "src4", "src6", "src7", "src8", "src9", "src14", "src15", "rerun", "ec",
                "out_edit", "out_edit2", "out_clear", "out_add", "out_add2", "out_add_front", "out_del",
                "out_del_last", "out_ec", "out_ptr", "rerun2", "out_edit_add", "out_edit2_add2", "out_edit_md",
                "out_edit_ec", "out_edit2_ec", "edit_rerun", "md_src", "collapsed_src", "md_empty_add", "md_empty_set", "unstale_edit", "nums_add", "nums_append", "nums_replace", "tag_front", "tag_back", "md_scrolled_true",
                "md_scrolled_auto", "md_del_collapsed", "md_shift",
                "md_edit", "md_add", "md_del", "md_collapsed", "id", "dup", "to_md"]
MD_ACTIONS = ["keep", "del", "src1", "src2", "src3", "src4", "src6", "md_edit", "md_add",
              "att_add", "att_del", "att_edit", "att_rename", "id", "dup", "att_edit_1", "md_edit_2024",
              "md_edit_note", "md_empty_add", "md_empty_set", "unstale_edit", "to_code", "to_code_src"]


def _edit_output(ctx, out, variant, tag):
    out = copy.copy(out)
    ot = out["output_type"]
    if ot == "stream":
        out["text"] = STREAM[variant]
    elif ot == "error":
        out["traceback"] = list(TRACEBACK[1])
        if variant == 2:
            out["evalue"] = "other"
    else:
        data = dict(out["data"])
        if "application/vnd.custom.v1+json" in data:
            js = dict(data["application/vnd.custom.v1+json"])
            if variant == 1:
                js["k"] = ctx.num(tag)
            else:
                js["l"] = [ctx.num(tag), 2]
            data["application/vnd.custom.v1+json"] = js
        elif "text/HTML" in data:
            data["text/HTML"] = "<b>bold</b>\n<i>IT</i>\n" if variant == 1 else "<u>other</u>\n"
        elif "application/json" in data:
            js = data["application/json"]
            if isinstance(js, dict):
                js = dict(js)
                js["k"] = ctx.num(tag)
                if variant == 2:
                    js["new"] = ctx.num(tag)
            elif isinstance(js, list):
                js = list(js)
                if variant == 2:
                    # a new first row shifts the others; the old first row gets a fresh
                    # leaf (which may coincide with the old one up to its JSON type)
                    if isinstance(js[0], list):
                        js = [[99, 98]] + [[ctx.num(tag)]] + js[1:]
                    else:
                        js = [{"j": 0}] + [{"k": ctx.num(tag)}] + js[1:]
                elif isinstance(js[0], list):
                    js[0] = [ctx.num(tag)]
                else:
                    js[0] = {"k": ctx.num(tag)}
            else:
                js = ctx.num(tag)
            data["application/json"] = js
        elif data.get("image/png") in B64S:
            data["image/png"] = B64S[variant]
        elif "image/png" in data:
            data["image/png"] = B64[variant]
            if variant == 2:
                data["text/plain"] = PLAIN_PTR
        else:
            data["text/plain"] = PLAIN[variant]
        out["data"] = data
    return out


def apply_action(ctx, cell, action, tag):
    """Returns a list of cells replacing `cell` (empty = deleted)."""
    if action == "keep":
        return [cell]
    if action == "del":
        return []
    c = dict(cell)
    fam = cell.get("_src")
    t = cell["cell_type"]
    if action.startswith("src"):
        k = int(action[3:])
        if fam is None:
            c["source"] = cell["source"] + "# edited %d\n" % k
        elif k >= len(SRC[fam]):
            return [cell]
        else:
            c["source"] = SRC[fam][k]
        return [c]
    if action == "ec":
        if t != "code":
            return [cell]
        c["execution_count"] = ctx.ec(tag)
        return [c]
    if action == "rerun":
        if t != "code":
            return [cell]
        ec = ctx.ec(tag)
        c["execution_count"] = ec
        outs = []
        for o in cell["outputs"]:
            o2 = _edit_output(ctx, o, 1, tag)
            if o2["output_type"] == "execute_result":
                o2["execution_count"] = ec
            outs.append(o2)
        c["outputs"] = outs
        return [c]
    if action == "rerun2":
        # re-run with a different result than 'rerun'
        if t != "code":
            return [cell]
        ec = ctx.ec(tag)
        c["execution_count"] = ec
        outs = []
        for o in cell["outputs"]:
            o2 = _edit_output(ctx, o, 2, tag)
            if o2["output_type"] == "execute_result":
                o2["execution_count"] = ec
            outs.append(o2)
        c["outputs"] = outs
        return [c]
    if action in ("out_edit_ec", "out_edit2_ec"):
        # the first output is edited, the last one (an execute_result) only gets a new prompt number
        if t != "code" or len(cell["outputs"]) < 2:
            return [cell]
        step = apply_action(ctx, cell, action[:-3], tag)[0]
        return apply_action(ctx, step, "out_ec", tag)
    if action in ("out_edit_add", "out_edit2_add2", "out_edit_md", "edit_rerun"):
        if t != "code":
            return [cell]
        if action == "edit_rerun":
            step = apply_action(ctx, cell, "src1", tag)[0]
            return apply_action(ctx, step, "rerun", tag)
        if not cell["outputs"]:
            return [cell]
        if action == "out_edit_add":
            step = apply_action(ctx, cell, "out_edit", tag)[0]
            return apply_action(ctx, step, "out_add", tag)
        if action == "out_edit2_add2":
            step = apply_action(ctx, cell, "out_edit2", tag)[0]
            step = apply_action(ctx, step, "out_add", tag)[0]
            return apply_action(ctx, step, "out_add2", tag)
        # out_edit_md: edit the first output and give the last one a new metadata key
        step = apply_action(ctx, cell, "out_edit2", tag)[0]
        outs = list(step["outputs"])
        o = copy.copy(outs[-1])
        if "metadata" in o:
            o["metadata"] = dict(o["metadata"], extra=ctx.md(tag))
            outs[-1] = o
        step = dict(step)
        step["outputs"] = outs
        return [step]
    if action in ("out_edit", "out_edit2"):
        if t != "code" or not cell["outputs"]:
            return [cell]
        outs = list(cell["outputs"])
        outs[0] = _edit_output(ctx, outs[0], 1 if action == "out_edit" else 2, tag)
        c["outputs"] = outs
        return [c]
    if action == "out_ptr":
        if t != "code" or not cell["outputs"]:
            return [cell]
        outs = list(cell["outputs"])
        o = copy.copy(outs[-1])
        if "data" in o and "text/plain" in o["data"]:
            o["data"] = dict(o["data"])
            o["data"]["text/plain"] = PLAIN_PTR
            if o["output_type"] == "execute_result":
                o["execution_count"] = ctx.ec(tag)
            outs[-1] = o
            c["outputs"] = outs
        return [c]
    if action == "out_clear":
        if t != "code":
            return [cell]
        c["outputs"] = []
        c["execution_count"] = None
        return [c]
    if action == "out_add":
        if t != "code":
            return [cell]
        c["outputs"] = list(cell["outputs"]) + [mk_output(ctx, "stderr", tag)]
        return [c]
    if action == "out_add_front":
        if t != "code":
            return [cell]
        c["outputs"] = [mk_output(ctx, "stderr", tag)] + list(cell["outputs"])
        return [c]
    if action == "out_ec":
        # only the execution count of the last execute_result changes (transient)
        if t != "code" or not cell["outputs"] or cell["outputs"][-1]["output_type"] != "execute_result":
            return [cell]
        outs = list(cell["outputs"])
        o = copy.copy(outs[-1])
        o["execution_count"] = ctx.ec(tag)
        outs[-1] = o
        c["outputs"] = outs
        return [c]
    if action == "out_del_last":
        if t != "code" or not cell["outputs"]:
            return [cell]
        c["outputs"] = list(cell["outputs"])[:-1]
        return [c]
    if action == "out_add2":
        if t != "code":
            return [cell]
        c["outputs"] = list(cell["outputs"]) + [mk_output(ctx, "error", tag)]
        return [c]
    if action == "out_del":
        if t != "code" or not cell["outputs"]:
            return [cell]
        c["outputs"] = list(cell["outputs"])[1:]
        return [c]
    if action == "md_edit":
        md = dict(cell["metadata"])
        key = "k0"
        md[key] = ctx.md(tag)
        c["metadata"] = md
        return [c]
    if action == "md_add":
        md = dict(cell["metadata"])
        md["tags"] = ["t-" + tag[0]]
        md["added"] = ctx.md(tag)
        c["metadata"] = md
        return [c]
    if action in ("tag_front", "tag_back"):
        md = dict(cell["metadata"])
        tags = list(md.get("tags", []))
        md["tags"] = (["x"] + tags) if action == "tag_front" else (tags + ["x"])
        c["metadata"] = md
        return [c]
    if action in ("md_empty_add", "md_empty_set"):
        md = dict(cell["metadata"])
        if action == "md_empty_add":
            md["blank"] = ""
        else:
            free = [k for k in sorted(md) if k not in ("collapsed", "scrolled", "tags", "lol", "2024", "note")]
            md[free[0] if free else "blank"] = ""
        c["metadata"] = md
        return [c]
    if action == "md_del":
        md = dict(cell["metadata"])
        if md:
            del md[sorted(md)[0]]
        c["metadata"] = md
        return [c]
    if action in ("md_scrolled_true", "md_scrolled_auto"):
        md = dict(cell["metadata"])
        md["scrolled"] = True if action == "md_scrolled_true" else "auto"
        c["metadata"] = md
        return [c]
    if action == "md_del_collapsed":
        md = dict(cell["metadata"])
        md.pop("collapsed", None)
        c["metadata"] = md
        return [c]
    if action == "md_shift":
        md = dict(cell["metadata"])
        if "lol" in md:
            md["lol"] = [[9, 9]] + [[ctx.md(tag)]] + list(md["lol"][1:])
        c["metadata"] = md
        return [c]
    if action == "md_collapsed":
        md = dict(cell["metadata"])
        md["collapsed"] = not md.get("collapsed", False)
        c["metadata"] = md
        return [c]
    if action == "id":
        if "id" in cell:
            c["id"] = NEW_IDS[tag[0] if tag[0] in NEW_IDS else "x"][0] + "-" + tag
        return [c]
    if action == "dup":
        d = dict(cell)
        if "id" in d:
            d["id"] = NEW_IDS[tag[0] if tag[0] in NEW_IDS else "x"][1] + "-" + tag
        return [cell, d]
    if action == "to_md":
        if t != "code":
            return [cell]
        c = {"cell_type": "markdown", "metadata": dict(cell["metadata"]), "source": cell["source"],
             "_src": fam}
        if "id" in cell:
            c["id"] = cell["id"]
        return [c]
    if action in ("to_code", "to_code_src"):
        # a markdown cell turned into a code cell (never run, or run: a fresh prompt number)
        if t != "markdown":
            return [cell]
        c = {"cell_type": "code", "metadata": dict(cell["metadata"]), "outputs": [],
             "source": cell["source"], "execution_count": ctx.ec(tag), "_src": fam}
        if action == "to_code_src" and fam is not None:
            c["source"] = SRC[fam][1]
        if "id" in cell:
            c["id"] = cell["id"]
        return [c]
    if action in ("att_edit_1", "md_edit_2024", "md_edit_note"):
        if action == "att_edit_1":
            att = {k: dict(v) for k, v in cell.get("attachments", {}).items()}
            if "1" in att:
                att["1"] = {"image/png": B64[1]}
                c["attachments"] = att
            return [c]
        md = dict(cell["metadata"])
        key = "2024" if action == "md_edit_2024" else "note"
        if key in md:
            md[key] = ctx.md(tag)
        c["metadata"] = md
        return [c]
    if action == "unstale_edit":
        # clean up the record of an earlier conflicted merge and edit again
        md = dict(cell["metadata"])
        md.pop("nbdime-conflicts", None)
        if "k0" in md:
            md["k0"] = ctx.md(tag)
        c["metadata"] = md
        if "attachments" in cell:
            att = {k: dict(v) for k, v in cell["attachments"].items() if not k.startswith("LOCAL_")}
            if "pic.png" in att:
                att["pic.png"] = {"image/png": B64[1]}
            c["attachments"] = att
        return [c]
    if action in ("nums_add", "nums_append", "nums_replace"):
        md = dict(cell["metadata"])
        if "nums" in md:
            cur = list(md["nums"])
            if action == "nums_add":
                md["nums"] = [ctx.md(tag)] + cur
            elif action == "nums_append":
                md["nums"] = cur + [ctx.md(tag)]
            else:
                md["nums"] = [ctx.md(tag)] + cur[1:]
        c["metadata"] = md
        return [c]
    if action in ("md_src", "collapsed_src"):
        step = apply_action(ctx, cell, "md_edit" if action == "md_src" else "md_collapsed", tag)[0]
        return apply_action(ctx, step, "src1", tag)
    if action.startswith("att_"):
        if t != "markdown":
            return [cell]
        att = {k: dict(v) for k, v in cell.get("attachments", {}).items()}
        if action == "att_add":
            att["new.png"] = {"image/png": B64[1] if tag[0] == "r" else B64[0]}
        elif action == "att_del":
            att.pop("pic.png", None)
        elif action == "att_edit":
            if "pic.png" in att:
                att["pic.png"] = {"image/png": B64[1] if tag[0] == "r" else B64[0][:-4] + "QQ=="}
            else:
                att["pic.png"] = {"image/png": B64[1]}
        elif action == "att_rename":
            if "pic.png" in att:
                att["renamed-%s.png" % tag[0]] = att.pop("pic.png")
        if att or "attachments" in cell:
            c["attachments"] = att
        return [c]
    raise ValueError("unknown action %r" % action)


# ------------------------------------------------------------------ notebooks
def mk_notebook(ctx, cells, tag, minor=None, nbmd=1):
    E = ctx.E
    if minor is None:
        if ctx.with_ids:
            minor = 5
        elif "minor" in ctx.sym:
            minor = E.int(ctx.fresh("minor", tag), lo=0, hi=4)
        else:
            minor = 4
    md = {}
    if nbmd:
        md["kernelspec"] = {"display_name": "Python 3", "language": "python", "name": "python3"}
        md["language_info"] = {"name": "python", "version": "3.%s" % "8"}
        md["nbk"] = ctx.md(tag)
    return {"nbformat": 4, "nbformat_minor": minor, "metadata": md, "cells": cells}


def base_notebook(ctx, templates, nbmd=1):
    cells = [mk_cell(ctx, TEMPLATES[t], "b%d" % i, idx=i) for i, t in enumerate(templates)]
    return mk_notebook(ctx, cells, "b", nbmd=nbmd)


NB_ACTIONS = ["keep", "md_edit", "md_add", "md_del", "lang", "minor"]


def derive(ctx, base, tag, actions, inserts, nb_action="keep"):
    """actions: one action per base cell; inserts: dict gap -> NEW_TEMPLATES
    key (or list of keys); nb_action: notebook-level change."""
    cells = []
    n = len(base["cells"])
    nins = 0
    for i in range(n + 1):
        ins = inserts.get(i)
        if ins:
            for name in (ins if isinstance(ins, (list, tuple)) else [ins]):
                tm = dict(NEW_TEMPLATES[name])
                if ctx.with_ids:
                    tm["id"] = tm.get("fixed_id") or (NEW_IDS[tag[0] if tag[0] in NEW_IDS else "x"][min(nins, 2)] + name)
                cells.append(mk_cell(ctx, tm, "%s_i%d" % (tag, i)))
                nins += 1
        if i < n:
            cells.extend(apply_action(ctx, base["cells"][i], actions[i], "%s%d" % (tag, i)))
    nb = dict(base)
    nb["cells"] = cells
    md = dict(base["metadata"])
    if nb_action == "md_edit":
        md["nbk"] = ctx.md(tag)
    elif nb_action == "md_add":
        md["extra"] = {"deep": [ctx.md(tag)]}
    elif nb_action == "md_del":
        md.pop("nbk", None)
    elif nb_action == "lang":
        li = dict(md.get("language_info", {}))
        li["version"] = "3.9" if tag[0] == "l" else "3.10"
        md["language_info"] = li
    elif nb_action == "minor":
        if not ctx.with_ids and "minor" in ctx.sym:
            nb["nbformat_minor"] = ctx.E.int(ctx.fresh("minor", tag), lo=0, hi=4)
    elif nb_action == "upgrade":
        # this side was saved by a newer Jupyter: format 4.5, every cell gets an id
        if not ctx.with_ids:
            nb["nbformat_minor"] = 5
            nb["cells"] = [dict(c, id="up%s%05d" % (tag[0], k)) for k, c in enumerate(cells)]
    nb["metadata"] = md
    return nb


def finalize(nb):
    """plain dict -> NotebookNode (private keys stripped)."""
    import nbformat
    return nbformat.from_dict(strip_private(nb))
