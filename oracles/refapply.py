"""Reference merge-decision applier written from docs/source/merging.rst and
merge_format.schema.json (independent of nbdime.merging.decisions).

Decisions are processed in the order given, grouped by common_path (a path
that ends inside a string addresses a line of that string; its diffs are
character-level and are wrapped into a patch of that line).  Each group is
resolved to one combined diff against the sub-document *as it is when the
group is reached* and applied with the reference patcher.  Actions are the
schema's enumeration; anything else raises RefApplyError.
"""
from .refpatch import refpatch, RefPatchError


class RefApplyError(Exception):
    pass


SCHEMA_ACTIONS = ("local", "remote", "base", "clear", "clear_all", "remove", "either",
                  "local_then_remote", "remote_then_local", "custom")


def _copy(x):
    if isinstance(x, dict):
        return {k: _copy(v) for k, v in x.items()}
    if isinstance(x, list):
        return [_copy(v) for v in x]
    return x


def _cleared(v):
    if isinstance(v, list):
        return []
    if isinstance(v, dict):
        return {}
    if isinstance(v, str):
        return ""
    return None


def resolve(decision, container, extra_actions=()):
    a = decision.get("action")
    ld = decision.get("local_diff") or []
    rd = decision.get("remote_diff") or []
    if a not in SCHEMA_ACTIONS and a not in extra_actions:
        raise RefApplyError("action %r is not in the published schema" % (a,))
    if a == "base":
        return []
    if a in ("local", "either"):
        return list(ld)
    if a == "remote":
        return list(rd)
    if a == "custom":
        return list(decision.get("custom_diff") or [])
    if a == "local_then_remote":
        return list(ld) + list(rd)
    if a == "remote_then_local":
        return list(rd) + list(ld)
    if a in ("clear", "remove"):
        keys = set(e["key"] for e in list(ld) + list(rd))
        if len(keys) != 1:
            raise RefApplyError("%s needs exactly one target key, got %r" % (a, sorted(keys, key=str)))
        key, = keys
        if isinstance(container, dict) and key not in container:
            # both sides added the key: clearing it means adding its cleared
            # form, removing it means not adding it
            if a == "clear":
                added = (list(ld) or list(rd))[0]["value"]
                return [dict(op="add", key=key, value=_cleared(added))]
            return []
        if a == "clear":
            return [dict(op="replace", key=key, value=_cleared(container[key]))]
        if isinstance(container, (list, str)):
            return [dict(op="removerange", key=key, length=1)]
        return [dict(op="remove", key=key)]
    if a == "clear_all":
        if isinstance(container, dict):
            return [dict(op="remove", key=k) for k in container]
        n = len(container.splitlines(True)) if isinstance(container, str) else len(container)
        return [dict(op="removerange", key=0, length=n)] if n else []
    if a == "take_max":
        keys = set(e["key"] for e in list(ld) + list(rd))
        key, = keys
        vals = [container[key]] + [e["value"] for e in list(ld)[:1]] + [e["value"] for e in list(rd)[:1]]
        m = vals[0]
        for v in vals[1:]:
            if v > m:
                m = v
        return [dict(op="replace", key=key, value=m)]
    raise RefApplyError("unhandled action %r" % (a,))


def _split(doc, path):
    """(container path, line) -- the part of path up to and including the
    first string, and the remaining line key if any."""
    cur = doc
    for i, k in enumerate(path):
        if isinstance(cur, str):
            return tuple(path[:i]), tuple(path[i:])
        try:
            cur = cur[k]
        except (KeyError, IndexError, TypeError):
            raise RefApplyError("common_path %r does not resolve (at %r)" % (list(path), k))
    return tuple(path), ()


def refapply(base, decisions, relabel=None, extra_actions=()):
    """Apply `decisions` to `base`.  relabel(decision) -> action may override
    the action of each decision (used for 'choose local/remote everywhere')."""
    merged = _copy(base)
    i = 0
    n = len(decisions)
    done_paths = []
    while i < n:
        cpath, _ = _split(merged, tuple(decisions[i]["common_path"]))
        group = []
        while i < n:
            p, line = _split(merged, tuple(decisions[i]["common_path"]))
            if p != cpath:
                break
            group.append((decisions[i], line))
            i += 1
        if cpath in done_paths:
            raise RefApplyError("decisions on %r are not contiguous" % (list(cpath),))
        done_paths.append(cpath)
        # resolve container
        parent, key, cur = None, None, merged
        for k in cpath:
            parent, key, cur = cur, k, cur[k]
        diffs = []
        for dec, line in group:
            if relabel is not None:
                dec = dict(dec)
                dec["action"] = relabel(dec)
            sub = cur
            if line:
                if len(line) != 1 or not isinstance(cur, str):
                    raise RefApplyError("path %r continues below a string line" % (dec["common_path"],))
                lines = cur.splitlines(True)
                if not 0 <= line[0] < len(lines):
                    raise RefApplyError("line %r out of range" % (line[0],))
                sub = lines[line[0]]
            d = resolve(dec, sub, extra_actions)
            if line and d:
                d = [dict(op="patch", key=line[0], diff=d)]
            diffs += d
        try:
            new = refpatch(cur, diffs, combine=True)
        except RefPatchError as ex:
            raise RefApplyError("group at %r: %s" % (list(cpath), ex))
        if parent is None:
            merged = new
        else:
            parent[key] = new
    return merged


def ordering_errors(decisions):
    """Ordering rule of the property: every decision inside a sub-document
    precedes any decision on an enclosing path."""
    errs = []
    paths = [tuple(d["common_path"]) for d in decisions]
    for i, p in enumerate(paths):
        for j in range(i + 1, len(paths)):
            q = paths[j]
            if len(q) > len(p) and q[:len(p)] == p:
                errs.append("decision %d on %r precedes decision %d on enclosed path %r" % (
                    i, list(p), j, list(q)))
    return errs
