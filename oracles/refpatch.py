"""Reference patcher written from docs/source/diffing.rst (independent of
nbdime.patching).  It moves values and never inspects them, so it works on
symbolic leaves unchanged.  It is strict about ambiguity: anything the
documented format does not give a meaning to raises RefPatchError.

Mapping ops: add / remove / replace / patch (string keys).
Sequence ops: addrange / removerange / patch; keys are indices into the
*original* sequence.  A string is a sequence of its ``splitlines(True)`` lines;
a ``patch`` entry on a line is a character-level sequence diff of that line.
"""


class RefPatchError(Exception):
    pass


def _get(e, k):
    try:
        return e[k]
    except KeyError:
        raise RefPatchError("diff entry %r lacks %r" % (dict(e), k))


def refpatch(obj, diff, combine=False):
    """combine=False: a single diff, strict.  combine=True: the concatenation
    of several diffs that address the same original (merge decisions of one
    path group): several addrange entries at one key insert in the order
    given, several patch entries of one item are concatenated recursively;
    anything else that targets an item twice is still an error."""
    if isinstance(obj, dict):
        return _patch_dict(obj, diff, combine)
    if isinstance(obj, list):
        return _patch_seq(obj, diff, lambda item, d: refpatch(item, d, combine), combine)
    if isinstance(obj, str):
        lines = obj.splitlines(True)
        out = _patch_seq(lines, diff, lambda line, d: _patch_chars(line, d, combine), combine)
        for x in out:
            if not isinstance(x, str):
                raise RefPatchError("non-string line inserted into a string")
        return "".join(out)
    raise RefPatchError("cannot patch a %s" % type(obj).__name__)


def _patch_chars(line, diff, combine=False):
    out = _patch_seq(list(line), diff, None, combine)
    return "".join(out)


def _patch_dict(obj, diff, combine=False):
    if not isinstance(diff, list):
        raise RefPatchError("diff must be a list")
    seen = {}
    out = dict(obj)
    if combine:
        # merge several patch entries of one key into one
        merged, order = {}, []
        for e in diff:
            op, key = _get(e, "op"), _get(e, "key")
            if op == "patch" and key in merged and merged[key]["op"] == "patch":
                merged[key] = dict(op="patch", key=key,
                                   diff=list(merged[key]["diff"]) + list(_get(e, "diff")))
            elif key in merged:
                raise RefPatchError("key %r targeted twice" % key)
            else:
                merged[key] = e
                order.append(key)
        diff = [merged[k] for k in order]
    for e in diff:
        op, key = _get(e, "op"), _get(e, "key")
        if not isinstance(key, str):
            raise RefPatchError("mapping key must be a string: %r" % (key,))
        if key in seen:
            raise RefPatchError("key %r targeted twice" % key)
        seen[key] = 1
        if op == "add":
            if key in obj:
                raise RefPatchError("add of existing key %r" % key)
            out[key] = _get(e, "value")
        elif op == "remove":
            if key not in obj:
                raise RefPatchError("remove of missing key %r" % key)
            del out[key]
        elif op == "replace":
            if key not in obj:
                raise RefPatchError("replace of missing key %r" % key)
            out[key] = _get(e, "value")
        elif op == "patch":
            if key not in obj:
                raise RefPatchError("patch of missing key %r" % key)
            out[key] = refpatch(obj[key], _get(e, "diff"), combine)
        else:
            raise RefPatchError("op %r is not defined for mappings" % (op,))
    return out


def _patch_seq(seq, diff, patch_item, combine=False):
    if not isinstance(diff, list):
        raise RefPatchError("diff must be a list")
    n = len(seq)
    inserts = {}
    removed = [False] * n
    patched = {}
    for e in diff:
        op, key = _get(e, "op"), _get(e, "key")
        if isinstance(key, bool) or not isinstance(key, int):
            raise RefPatchError("sequence key must be an integer: %r" % (key,))
        if op == "addrange":
            if not 0 <= key <= n:
                raise RefPatchError("addrange key %d out of range 0..%d" % (key, n))
            if key in inserts and not combine:
                raise RefPatchError("two addrange entries at key %d" % key)
            vl = _get(e, "valuelist")
            if not isinstance(vl, (list, str)):
                raise RefPatchError("valuelist must be a sequence")
            inserts[key] = inserts.get(key, []) + list(vl)
        elif op == "removerange":
            ln = _get(e, "length")
            if isinstance(ln, bool) or not isinstance(ln, int) or ln < 1:
                raise RefPatchError("bad removerange length %r" % (ln,))
            if not (0 <= key and key + ln <= n):
                raise RefPatchError("removerange %d+%d out of range (len %d)" % (key, ln, n))
            for i in range(key, key + ln):
                if removed[i] or i in patched:
                    raise RefPatchError("item %d targeted twice" % i)
                removed[i] = True
        elif op == "patch":
            if not 0 <= key < n:
                raise RefPatchError("patch key %d out of range (len %d)" % (key, n))
            if removed[key] or (key in patched and not combine):
                raise RefPatchError("item %d targeted twice" % key)
            if patch_item is None:
                raise RefPatchError("patch below character level")
            patched[key] = list(patched.get(key, [])) + list(_get(e, "diff"))
        else:
            raise RefPatchError("op %r is not defined for sequences" % (op,))
    out = []
    for i in range(n + 1):
        if i in inserts:
            out.extend(inserts[i])
        if i < n:
            if removed[i]:
                continue
            if i in patched:
                out.append(patch_item(seq[i], patched[i]))
            else:
                out.append(seq[i])
    return out
