"""Schema oracles evaluated on model instances (jsonschema is C-free but needs
concrete values): nbdime's published diff / merge-decision schemas, and
nbformat's per-minor-version notebook schemas."""
import json
import os

import jsonschema

_cache = {}


def _nbdime_dir():
    import nbdime
    return os.path.dirname(nbdime.__file__)


def _load(name):
    if name not in _cache:
        with open(os.path.join(_nbdime_dir(), name)) as f:
            _cache[name] = json.load(f)
    return _cache[name]


def _plain(x):
    if isinstance(x, dict):
        return {k: _plain(v) for k, v in x.items()}
    if isinstance(x, (list, tuple)):
        return [_plain(v) for v in x]
    return x


def diff_schema_errors(diff):
    schema = _load("diff_format.schema.json")
    v = jsonschema.Draft4Validator(schema)
    try:
        inst = json.loads(json.dumps(diff))
    except (TypeError, ValueError) as ex:
        return ["not JSON serialisable: %s" % ex]
    return ["%s: %s" % ("/".join(str(p) for p in e.absolute_path), e.message[:120])
            for e in v.iter_errors(inst)][:5]


def merge_schema_errors(decisions):
    schema = _load("merge_format.schema.json")
    dschema = _load("diff_format.schema.json")
    try:
        from referencing import Registry, Resource
        from referencing.jsonschema import DRAFT4
        reg = Registry().with_resource(
            "diff_format.schema.json", Resource(contents=dschema, specification=DRAFT4))
        v = jsonschema.Draft4Validator(schema, registry=reg)
    except ImportError:
        resolver = jsonschema.RefResolver("", schema, store={"diff_format.schema.json": dschema})
        v = jsonschema.Draft4Validator(schema, resolver=resolver)
    try:
        inst = json.loads(json.dumps(decisions))
    except (TypeError, ValueError) as ex:
        return ["not JSON serialisable: %s" % ex]
    return ["%s: %s" % ("/".join(str(p) for p in e.absolute_path), e.message[:160])
            for e in v.iter_errors(inst)][:5]


def json_roundtrip_ok(obj):
    try:
        s = json.dumps(obj, allow_nan=False)
        back = json.loads(s)
    except (TypeError, ValueError):
        return False
    return _strict(_plain(obj), back)


def _strict(x, y):
    if isinstance(x, dict):
        return isinstance(y, dict) and set(x) == set(y) and all(_strict(x[k], y[k]) for k in x)
    if isinstance(x, (list, tuple)):
        return isinstance(y, list) and len(x) == len(y) and all(_strict(a, b) for a, b in zip(x, y))
    return type(x) is type(y) and x == y


def nb_schema_errors(nb):
    """Errors of notebook nb against nbformat's v4.<minor> schema for the minor
    the notebook declares (nbformat's own validator, which resolves the
    cell / output oneOf by cell_type / output_type).  Each error:
    'json/path: validator: message'."""
    from nbformat import validator
    try:
        inst = json.loads(json.dumps(nb))
    except (TypeError, ValueError) as ex:
        return ["not JSON serialisable: %s" % ex]
    major = inst.get("nbformat")
    minor = inst.get("nbformat_minor")
    if major != 4 or not isinstance(minor, int) or isinstance(minor, bool) or minor < 0:
        return ["nbformat/nbformat_minor: %r.%r is not a v4 notebook version" % (major, minor)]
    out = []
    for e in validator.iter_validate(inst, version=4, version_minor=minor):
        out.append("%s: %s: %s" % ("/".join(str(p) for p in e.absolute_path),
                                   e.validator, str(e.message)[:140]))
    return out[:8]
