"""Executable form of the option-resolution rule documented in
docs/source/config.rst (and restated by property C19):

  effective value = command-line flag if given, otherwise the value from the
  most specific configuration section that sets it -- the entry point's own
  section, then its git-specific, diff-or-merge, web-tool, web and global
  sections -- otherwise the built-in default; within one section a file in the
  working directory takes precedence over user-level and system-level files.
  'Ignore' mappings of several sections are merged path by path, the most
  specific section winning for each path.

Section membership is the table under "Sections" in config.rst.
"""

DIRS = ("CWD", "USER", "SYS")           # descending priority

SECTIONS_OF = {   # most specific first
    "nbdiff": ["NbDiff", "GitDiff", "Diff", "Global"],
    "nbdiff-web": ["NbDiffWeb", "GitDiff", "Diff", "Web", "Global"],
    "nbmerge": ["NbMerge", "Merge", "Global"],
    "nbmerge-web": ["NbMergeWeb", "Merge", "Web", "Global"],
    "nbshow": ["NbShow", "Global"],
    "server": ["Server", "Web", "Global"],
    "extension": ["Extension", "GitDiff", "Diff", "Global"],
    "git-nbdiffdriver": ["NbDiffDriver", "GitDiff", "Diff", "Global"],
    "git-nbdifftool": ["NbDiffTool", "GitDiff", "Diff", "WebTool", "Web", "Global"],
    "git-nbmergedriver": ["NbMergeDriver", "GitMerge", "Merge", "Global"],
    "git-nbmergetool": ["NbMergeTool", "GitMerge", "Merge", "WebTool", "Web", "Global"],
}
ALL_SECTIONS = ["Global", "Web", "WebTool", "Diff", "Merge", "GitDiff", "GitMerge", "NbDiff", "NbDiffWeb",
                "NbMerge", "NbMergeWeb", "NbShow", "Server", "Extension", "NbDiffDriver", "NbDiffTool",
                "NbMergeDriver", "NbMergeTool"]
MISSING = object()

# Which options a shared section is documented to carry ("only for options
# that are supported by all commands" the section configures); derived from the
# option listing in config.rst.
_GLOBAL = {"log_level"}
_WEB = {"port", "ip", "base_url", "browser", "persist", "workdirectory"} | _GLOBAL
_IGN = {"sources", "outputs", "attachments", "metadata", "id", "details", "Ignore"} | _GLOBAL
_DIFFING = _IGN | {"color_words"}
_MERGE = _DIFFING | {"merge_strategy", "input_strategy", "output_strategy", "ignore_transients"}
SUPPORTS = {"Global": _GLOBAL, "Web": _WEB, "WebTool": _WEB, "Diff": _DIFFING, "GitDiff": _DIFFING,
            "Merge": _MERGE, "GitMerge": _MERGE}


def supports(section, option, entrypoint=None):
    if section in SUPPORTS:
        return option in SUPPORTS[section]
    return True        # an entry point's own section carries all of its options


def section_value(files, section, option):
    """Value of option in section: highest-priority directory that sets it."""
    for d in DIRS:
        sec = files.get(d, {}).get(section)
        if sec is not None and option in sec:
            return sec[option]
    return MISSING


def effective(entrypoint, files, option, default=MISSING, flag=MISSING):
    if flag is not MISSING:
        return flag
    for section in SECTIONS_OF[entrypoint]:
        v = section_value(files, section, option)
        if v is not MISSING:
            return v
    return default


def effective_ignore(entrypoint, files, default=None):
    """Path-by-path merge: for each path the most specific section that
    mentions it (and, inside that section, the highest-priority directory)."""
    out = dict(default or {})
    decided = set()
    for section in SECTIONS_OF[entrypoint]:
        paths = set()
        for d in DIRS:
            sec = files.get(d, {}).get(section)
            if sec is not None and isinstance(sec.get("Ignore"), dict):
                paths |= set(sec["Ignore"])
        for p in sorted(paths):
            if p in decided:
                continue
            for d in DIRS:
                sec = files.get(d, {}).get(section)
                if sec is not None and isinstance(sec.get("Ignore"), dict) and p in sec["Ignore"]:
                    out[p] = sec["Ignore"][p]
                    decided.add(p)
                    break
    return out
