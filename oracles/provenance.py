"""Line-provenance oracle for C07 / C10 (content based, as the property is
stated): which non-blank source lines of the merged notebook come from none of
the three inputs and are not conflict markers, and which lines added by a side
are missing from the merged notebook."""
import re

MARKER = re.compile(r"^(<{7}|\|{7}|={7}|>{7})( .*)?$")
CELL_MARKER = re.compile(r'^<span style="color:red"><b>(<{7}|={7}|>{7})( .*)?</b></span>$')


def _lines(sources):
    out = set()
    for s in sources:
        for ln in s.splitlines():
            if ln.strip():
                out.add(ln)
    return out


def is_marker(line):
    return bool(MARKER.match(line) or CELL_MARKER.match(line))


def fabricated_lines(base, local, remote, merged, allow_markers=True):
    known = _lines(base) | _lines(local) | _lines(remote)
    out = []
    for ln in sorted(_lines(merged) - known):
        if allow_markers and is_marker(ln):
            continue
        out.append(ln)
    return out


def dropped_lines(base, local, remote, merged):
    b = _lines(base)
    added = (_lines(local) - b) | (_lines(remote) - b)
    return sorted(added - _lines(merged))


def marker_free(merged):
    return [ln for ln in sorted(_lines(merged)) if is_marker(ln)]
