"""Strict structural validator for nbdime diffs (property C11), written from the
property statement and docs/source/diffing.rst -- independent of
nbdime.diff_format.validate_diff.

wellformed(diff, base) -> list of error strings (empty = well-formed):
 * list ops ordered by position, an addrange at key k before a
   removerange/patch at k, removed/patched ranges never overlap and stay
   within bounds, lengths >= 1, valuelists non-empty;
 * each object key targeted at most once; add names an absent key; remove,
   replace and patch name present keys;
 * nested patches descend only into containers (list / dict / str) and are
   never empty;
 * strings are sequences of ``splitlines(True)`` lines; a patch of a line is a
   character-level sequence diff; nothing patches below character level.
Values are never inspected, so symbolic leaves are fine.
"""

SEQ_OPS = ("addrange", "removerange", "patch")
MAP_OPS = ("add", "remove", "replace", "patch")


def wellformed(diff, base, path="", level=None):
    errs = []
    _wf(diff, base, path, errs, level)
    return errs


def _wf(diff, base, path, errs, level=None):
    if not isinstance(diff, list):
        errs.append("%s: diff is not a list" % path)
        return
    if isinstance(base, dict):
        _wf_map(diff, base, path, errs)
    elif isinstance(base, list):
        _wf_seq(diff, base, path, errs, "list")
    elif isinstance(base, str):
        if level == "chars":
            _wf_seq(diff, list(base), path, errs, "chars")
        else:
            _wf_seq(diff, base.splitlines(True), path, errs, "lines")
    else:
        errs.append("%s: diff against a non-container" % path)


def _entry_ok(e, path, errs):
    if not isinstance(e, dict) or "op" not in e or "key" not in e:
        errs.append("%s: malformed diff entry %r" % (path, e))
        return False
    return True


def _wf_map(diff, base, path, errs):
    seen = set()
    for e in diff:
        if not _entry_ok(e, path, errs):
            continue
        op, key = e["op"], e["key"]
        p = "%s/%s" % (path, key)
        if not isinstance(key, str):
            errs.append("%s: non-string key in mapping diff" % p)
            continue
        if op not in MAP_OPS:
            errs.append("%s: op %r not valid for mappings" % (p, op))
            continue
        if key in seen:
            errs.append("%s: key targeted more than once" % p)
        seen.add(key)
        allowed = {"add": ("op", "key", "value"), "remove": ("op", "key"),
                   "replace": ("op", "key", "value"), "patch": ("op", "key", "diff")}[op]
        if set(e.keys()) != set(allowed):
            errs.append("%s: %s entry has fields %r" % (p, op, sorted(e.keys())))
            continue
        if op == "add":
            if key in base:
                errs.append("%s: add names a present key" % p)
        else:
            if key not in base:
                errs.append("%s: %s names an absent key" % (p, op))
                continue
            if op == "patch":
                sub = base[key]
                if not isinstance(sub, (dict, list, str)):
                    errs.append("%s: patch descends into a non-container" % p)
                elif not e["diff"]:
                    errs.append("%s: empty patch" % p)
                else:
                    _wf(e["diff"], sub, p, errs)


def _wf_seq(diff, base, path, errs, kind):
    n = len(base)
    pos = 0          # first base index not yet consumed by remove/patch
    last_key = -1
    last_add = -1    # key of last addrange
    for e in diff:
        if not _entry_ok(e, path, errs):
            continue
        op, key = e["op"], e["key"]
        p = "%s/%s" % (path, key)
        if isinstance(key, bool) or not isinstance(key, int):
            errs.append("%s: non-integer key in sequence diff" % p)
            continue
        if op not in SEQ_OPS:
            errs.append("%s: op %r not valid for sequences" % (p, op))
            continue
        allowed = {"addrange": ("op", "key", "valuelist"),
                   "removerange": ("op", "key", "length"),
                   "patch": ("op", "key", "diff")}[op]
        if set(e.keys()) != set(allowed):
            errs.append("%s: %s entry has fields %r" % (p, op, sorted(e.keys())))
            continue
        if key < last_key:
            errs.append("%s: entries not ordered by position (after key %d)" % (p, last_key))
        if op == "addrange":
            vl = e["valuelist"]
            if not isinstance(vl, (list, str)):
                errs.append("%s: valuelist is not a sequence" % p)
            elif len(vl) == 0:
                errs.append("%s: empty addrange" % p)
            elif kind == "lines" and not all(isinstance(x, str) for x in vl):
                errs.append("%s: non-string line inserted" % p)
            elif kind == "chars" and not isinstance(vl, str) and not all(
                    isinstance(x, str) and len(x) == 1 for x in vl):
                errs.append("%s: non-character inserted" % p)
            if not 0 <= key <= n:
                errs.append("%s: addrange out of bounds (len %d)" % (p, n))
            # (several addrange entries at one position are ordered and do not
            # overlap; the property does not forbid them -- diffs collected
            # inside merge decisions contain such pairs)
            if key < pos:
                errs.append("%s: addrange inside or before an already consumed range" % p)
            last_add = key
        else:
            if op == "removerange":
                ln = e["length"]
                if isinstance(ln, bool) or not isinstance(ln, int) or ln < 1:
                    errs.append("%s: bad removerange length %r" % (p, ln))
                    ln = 1
            else:
                ln = 1
            if key < pos:
                errs.append("%s: %s overlaps a previous entry" % (p, op))
            if key < 0 or key + ln > n:
                errs.append("%s: %s out of bounds (len %d)" % (p, op, n))
            elif op == "patch":
                sub = base[key]
                if kind == "chars":
                    errs.append("%s: patch below character level" % p)
                elif not isinstance(sub, (dict, list, str)):
                    errs.append("%s: patch descends into a non-container" % p)
                elif not e["diff"]:
                    errs.append("%s: empty patch" % p)
                else:
                    _wf(e["diff"], sub, p, errs, "chars" if kind == "lines" else None)
            pos = max(pos, key + ln)
        last_key = max(last_key, key)
