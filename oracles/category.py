"""Diff-path -> ignore categories (C14, C16), written from nbdime's option
help ("process/ignore sources / outputs / attachments / metadata / identifiers
/ details") and docs/source/config.rst.  A path can lie inside more than one
category (output-level metadata is inside 'outputs' and inside 'metadata');
it is hidden as soon as one of them is ignored."""

CATEGORIES = ("sources", "outputs", "attachments", "metadata", "id", "details")


def star(path):
    return tuple("*" if isinstance(p, int) else p for p in path)


def categories(path):
    """path: tuple of keys from the notebook root."""
    s = star(path)
    out = set()
    if s[:3] == ("cells", "*", "source"):
        out.add("sources")
    if s[:3] == ("cells", "*", "outputs"):
        out.add("outputs")
        if s[3:5] == ("*", "metadata"):
            out.add("metadata")
        if s[3:5] == ("*", "execution_count"):
            out.add("details")
    if s[:3] == ("cells", "*", "attachments"):
        out.add("attachments")
    if s[:1] == ("metadata",) or s[:3] == ("cells", "*", "metadata"):
        out.add("metadata")
    if s[:3] == ("cells", "*", "id"):
        out.add("id")
    if s[:3] == ("cells", "*", "execution_count"):
        out.add("details")
    return out


def entries_with_paths(diff, prefix=()):
    """Yield (path, entry) for every leaf (non-patch) entry and every patch
    entry of a diff, path = location the entry talks about."""
    for e in diff:
        p = prefix + (e["key"],)
        yield p, e
        if e["op"] == "patch":
            for x in entries_with_paths(e["diff"], p):
                yield x


def hidden_entries(diff, ignored):
    """Entries of diff whose path lies inside an ignored category."""
    bad = []
    for p, e in entries_with_paths(diff):
        c = categories(p)
        if c & set(ignored):
            bad.append("/" + "/".join(str(x) for x in p) + " (%s, %s)" % (e["op"], ",".join(sorted(c))))
    return bad


def project(nb, ignored):
    """Remove everything inside the ignored categories (structural copy; leaves
    are shared, so symbolic leaves survive)."""
    ig = set(ignored)
    out = {k: v for k, v in nb.items() if k != "cells" and k != "metadata"}
    out["metadata"] = {} if "metadata" in ig else nb.get("metadata", {})
    cells = []
    for c in nb.get("cells", []):
        d = {}
        for k, v in c.items():
            if k == "source" and "sources" in ig:
                continue
            if k == "attachments" and "attachments" in ig:
                continue
            if k == "metadata" and "metadata" in ig:
                continue
            if k == "id" and "id" in ig:
                continue
            if k == "execution_count" and "details" in ig:
                continue
            if k == "outputs":
                if "outputs" in ig:
                    continue
                outs = []
                for o in v:
                    o2 = {}
                    for ok, ov in o.items():
                        if ok == "metadata" and "metadata" in ig:
                            continue
                        if ok == "execution_count" and "details" in ig:
                            continue
                        o2[ok] = ov
                    outs.append(o2)
                d[k] = outs
                continue
            d[k] = v
        cells.append(d)
    out["cells"] = cells
    return out
