"""Aliasing oracle for C13: mutable containers (dict / list) reachable from a
result that are, by identity, containers reachable from an input."""


def _walk(obj, path, out, seen):
    if isinstance(obj, (dict, list)):
        if id(obj) in seen:
            return
        seen.add(id(obj))
        out[id(obj)] = (path, obj)
        items = obj.items() if isinstance(obj, dict) else enumerate(obj)
        for k, v in items:
            _walk(v, "%s/%s" % (path, k), out, seen)


def containers(obj, name=""):
    out = {}
    _walk(obj, name, out, set())
    return out


def shared_containers(result, inputs):
    """inputs: list of (name, obj).  Returns ['result-path is input-path', ...]"""
    rc = containers(result, "result")
    shared = []
    for name, obj in inputs:
        ic = containers(obj, name)
        for i, (p, o) in ic.items():
            if i in rc and rc[i][1] is o:
                shared.append("%s is %s" % (rc[i][0], p))
    return sorted(shared)
