"""C19 -- option resolution follows flag > most specific config section >
default.

Environment stubs: jupyter_config_path() -> two directories (user, system),
os.getcwd() inside nbdime.config -> a third (working directory), the JSON
config-file loader -> an in-memory loader serving, per directory, the sections
chosen for the path (ConfigFileNotFound for a directory that sets nothing).
The real build_config, _load_config_files, recursive_update,
ConfigBackedParser.parse_known_args and each entry point's real argument
parser run unmodified (web entry points are imported with the import-only
stand-ins of /verif/stubs for jinja2 / jupyter_server / requests).

Per path: an entry point (all 11), an option (details, port, merge_strategy,
color_words, log_level, Ignore), and at most 3 (4) (directory, section) slots
in which the option is set -- which slots is chosen by E.choice among the
sections the entry point inherits that are documented to carry the option,
plus one section it does not inherit.  Each slot's value is a distinct fresh
symbolic integer that nbdime only moves around, so "the resolved value IS the
value of the slot the documented rule designates" is decided by z3 for all
values (oracles/configmodel.py is the executable form of config.rst).

  V1  build_config(entry point)[option] == configmodel.effective(...)
  V2  'Ignore' mappings are merged path by path, most specific section first
  V3  through the real parser: a flag beats any configured value, a
      configured value beats the default.
Non-trivial = at least two slots set (V1/V2) / flag and configuration both
present (V3).
"""
import sys

from sx import runner
from . import common, fam_config

PROP = "C19"


def main():
    common.silence_logging()
    t = common.tier()
    known = common.known_findings(PROP)
    kn = tuple(sorted(known))
    chk = common.Check(PROP, __doc__)
    r = runner.explore("harness.fam_config", fam_config.shards(t, (PROP,), kn), nproc=common.nproc(),
                       budget_s=300 if t == "quick" else 2400)
    chk.add("option-resolution", r)
    chk.bounds["option-resolution"] = ("11 entry points x 5 scalar options (where applicable) x every choice of <= %d "
                                       "(directory, section) slots among 3 directories x documented sections + one foreign "
                                       "section; Ignore: <= %d (directory, section, path) cells over 2 paths; parser level: "
                                       "5 entry points x options x <= 2 slots x flag given or not" % ((3, 3) if t == "quick" else (4, 4)))
    chk.outside += ["more than 3 (4) slots set at once", "options placed in sections that are not documented to carry them",
                    "the content of real configuration files on disk and JSON syntax errors",
                    "parser-level check of server, extension and the git driver / tool entry points (their build_config is covered)"]
    chk.stubs += ["nbdime.config.jupyter_config_path, nbdime.config.os.getcwd, nbdime.config.JSONFileConfigLoader (in-memory)",
                  "jinja2 / jupyter_server / requests import-only stand-ins (no handler code runs)"]
    chk.require_goals(["several-slots", "global-section-set", "foreign-section-set", "ignore-several-sections",
                       "flag-over-config", "default-valued-flag-over-config", "cwd-also-a-jupyter-dir", "empty-ignore-mapping-next-to-configured-paths", "second-build_config-of-the-process"])
    return chk.finish()


if __name__ == "__main__":
    sys.exit(main())
