"""E1 cross-check: run CrossHair (symbolic execution of Python with z3, list
lengths symbolic too) on the conditions of /verif/xh/conditions.py.  One
process per condition under a timeout.  'Confirmed over all paths' is the only
answer counted as agreement; a counterexample is replayed on plain Python and,
if it reproduces, reported as a violation of the property; anything else is
recorded as inconclusive *for the cross-check* (the sx exploration remains the
deciding step of the check and is unaffected)."""
import ast
import importlib
import os
import re
import subprocess
import sys
import time
from concurrent.futures import ThreadPoolExecutor

from . import common

FILE = os.path.join(common.VERIF, "xh", "conditions.py")


def _lines():
    src = open(FILE).read()
    tree = ast.parse(src)
    out = {}
    for node in tree.body:
        if isinstance(node, ast.FunctionDef) and not node.name.startswith("_"):
            out[node.name] = node.lineno + 1
    return out


def _one(name, line, timeout):
    t0 = time.time()
    cmd = [sys.executable, "-m", "crosshair", "check", "--report_all",
           "--per_condition_timeout", str(timeout), "%s:%d" % (FILE, line)]
    try:
        p = subprocess.run(cmd, capture_output=True, text=True, timeout=timeout * 4 + 60, cwd=common.VERIF)
        out = (p.stdout + p.stderr).strip()
    except subprocess.TimeoutExpired:
        out = "timeout"
    return name, out, time.time() - t0


def run(chk, names, prop, timeout=60):
    lines = _lines()
    results = []
    with ThreadPoolExecutor(max_workers=min(len(names), 8)) as ex:
        futs = [ex.submit(_one, n, lines[n], timeout) for n in names]
        for f in futs:
            results.append(f.result())
    mod = importlib.import_module("xh.conditions")
    for name, out, secs in results:
        verdict = "inconclusive"
        detail = out.splitlines()[-1][:200] if out else ""
        if "Confirmed over all paths" in out:
            verdict = "confirmed over all paths"
        else:
            m = re.search(r"when calling (\w+\(.*\)) \(which returns", out)
            if m:
                call = m.group(1)
                try:
                    ok = eval(call, dict(vars(mod)))
                except Exception as ex:  # noqa
                    ok = "raised %s" % type(ex).__name__
                if ok is not True:
                    verdict = "counterexample replayed"
                    chk.violations.append(dict(part="crosshair", label="crosshair:" + name,
                                               info="%s -> %r" % (call, ok), module="xh.conditions",
                                               factory="__call__", params={}, values={}, choices=[], call=call))
                else:
                    verdict = "counterexample did not replay (inconclusive)"
        chk.crosshair.append(dict(condition=name, verdict=verdict, seconds=round(secs, 1), last_line=detail))
    return results
