"""Notebook-level merge family (placeholder until the notebook generator
lands): add_parts() attaches the notebook parts of a property's check."""


def add_parts(chk, prop, tier, known):
    return
