"""Harness family "three-way notebook merge" (real merge_notebooks /
decide_notebook_merge / apply_decisions).

base = notebook from cell templates; local and remote = base after independent
edit scripts (one action per cell and an optional insertion per side), chosen
by E.choice; strategy arguments and the text-merge back end are selectors
too.  Symbolic leaves: execution counts, metadata values, JSON payload
numbers, nbformat_minor of each of the three notebooks.

Obligations by property: C03 completes; C04 merged validates; C05 laws; C06
disjoint ownership; C07 provenance / flagging; C09 decisions; C10 use-*;
C11 decision diffs well-formed; C13 inputs unchanged.
"""
import argparse
import os
import itertools

from sx.values import json_identical, unchanged, land, lnot, lor, implies, snapshot
from gen import notebooks as G
from oracles import schema as schemas
from oracles.refapply import refapply, RefApplyError, ordering_errors
from oracles.refpatch import RefPatchError
from oracles.provenance import fabricated_lines, dropped_lines, marker_free
from oracles.alias import shared_containers
from . import common, fam_merge, fam_nbdiff

MERGE_STRATS = ("inline", "use-base", "use-local", "use-remote")
INPUT_STRATS = (None,) + MERGE_STRATS
OUTPUT_STRATS = (None,) + MERGE_STRATS + ("remove", "clear-all")
TOOLS = ("git", "diff3", "builtin")

# per-side action lists
ACTS_CODE = ["keep", "del", "src1", "src2", "src3", "src4", "src6", "src7", "rerun", "ec", "out_edit", "out_edit2",
             "out_clear", "out_add", "out_add2", "md_edit", "md_add", "md_del", "md_collapsed", "id",
             "tag_front", "tag_back"]
ACTS_SMALL = ["keep", "del", "src1", "src2", "rerun", "out_edit", "out_edit2", "md_edit"]
ACTS_MD = ["keep", "del", "src1", "src2", "src3", "src4", "src7", "md_edit", "att_add", "att_del", "att_edit",
           "att_rename", "id"]
ACTS_CONFLICT = ["src1", "src2", "del", "out_edit", "out_edit2", "md_edit", "rerun"]
INS_SIDE = {"l": [None, ("N1", 0), ("N2", 1), ("N1", 1), ("NmA", 0)],
            "r": [None, ("N1s", 0), ("N2", 1), ("Nm", 0), ("N1", 1), ("NmB", 0)]}
# runs of several inserted cells at one position: dissimilar blocks of unequal
# length followed / preceded by a similar pair, a common cell, a lone cell
INS_RUNS = {"l": [None, (("N2", "N3", "N1"), 0), (("N1", "N2"), 0), (("N4", "N1", "N3"), 0), (("N2",), 0),
                  (("N2", "N1"), 0)],
            "r": [None, (("N4", "N1s"), 0), (("N1s", "N3", "N4"), 0), (("Nm", "N4", "N1s", "N2"), 0), (("N2", "N1s"), 0),
                  (("N4", "N3", "N1s"), 0), (("Nm", "N2", "N4", "N5", "N1s"), 0)]}


def mk_args(merge_strategy="inline", input_strategy=None, output_strategy=None,
            ignore_transients=True, log_level="INFO"):
    return argparse.Namespace(merge_strategy=merge_strategy, input_strategy=input_strategy,
                              output_strategy=output_strategy, ignore_transients=ignore_transients,
                              log_level=log_level)


_counter = [0]
_ORIG_PATH = [os.environ.get("PATH", "")]
_SCRATCH = []


def _diff_only_path():
    if not _SCRATCH:
        import atexit
        import shutil
        import tempfile
        d = tempfile.mkdtemp(prefix="verif_path_")
        os.symlink(shutil.which("diff", path=_ORIG_PATH[0]), os.path.join(d, "diff"))
        atexit.register(shutil.rmtree, d, True)
        _SCRATCH.append(d)
    return _SCRATCH[0]


def install_env(tool):
    """Stubs (part of the claim): which() inside nbdime.prettyprint answers
    according to the tool selector; marker-cell ids come from a counter."""
    import nbdime.prettyprint as pp
    import nbformat.v4.nbbase as nbbase
    import shutil

    def which(name, *a, **k):
        if tool == "git":
            return shutil.which(name)
        if tool == "diff3":
            return None if name == "git" else shutil.which(name)
        if tool == "diffonly":
            return None if name in ("git", "diff3") else shutil.which(name)
        return None if name in ("git", "diff3", "diff") else shutil.which(name)
    pp.which = which
    # "diffonly": a machine with plain diff but neither git nor diff3 -- the
    # subprocesses see a PATH that holds nothing but `diff`
    if tool == "diffonly":
        os.environ["PATH"] = _diff_only_path()
    else:
        os.environ["PATH"] = _ORIG_PATH[0]
    _counter[0] = 0

    def cell_id():
        _counter[0] += 1
        return "marker%03d" % _counter[0]
    nbbase.random_cell_id = cell_id


def applicable_actions(tmpl, acts, with_ids):
    al = fam_nbdiff.actions_for(tmpl, acts)
    if not with_ids:
        al = [a for a in al if a != "id"]
    return al


# set by the harness factories from their `known` list (F16: a value newly
# written by local and one newly written by remote are Python-equal but of
# different JSON type)
F16_EXCLUDE = [False]


def gen_triple(E, templates, acts_l, acts_r, ins_l, ins_r, nbacts, ids, sym, conflict_only=False):
    with_ids = ids[E.choice("ids", len(ids))] if len(ids) > 1 else ids[0]
    ctx = G.Ctx(E, bool(with_ids), sym=sym)
    base = G.base_notebook(ctx, templates)
    sl, sr = [], []
    for i, t in enumerate(templates):
        al = applicable_actions(t, acts_l, with_ids)
        ar = applicable_actions(t, acts_r, with_ids)
        sl.append(al[E.choice("l%d" % i, len(al))])
        sr.append(ar[E.choice("r%d" % i, len(ar))])
    il = ins_l[E.choice("li", len(ins_l))] if len(ins_l) > 1 else ins_l[0]
    ir = ins_r[E.choice("ri", len(ins_r))] if len(ins_r) > 1 else ins_r[0]
    n = len(templates)
    insl = {min(il[1], n): il[0]} if il else {}
    insr = {min(ir[1], n): ir[0]} if ir else {}
    nl = nbacts[E.choice("lnb", len(nbacts))] if len(nbacts) > 1 else nbacts[0]
    nr = nbacts[E.choice("rnb", len(nbacts))] if len(nbacts) > 1 else nbacts[0]
    if conflict_only:
        touch = any(a != "keep" and b != "keep" for a, b in zip(sl, sr))
        same_gap = bool(insl) and bool(insr) and set(insl) == set(insr)
        if not (touch or same_gap or (nl != "keep" and nr != "keep")):
            E.assume(False)
    L = G.derive(ctx, base, "l", sl, insl, nl)
    R = G.derive(ctx, base, "r", sr, insr, nr)
    if F16_EXCLUDE[0]:
        from sx.values import py_equal
        for x in ctx.fresh_leaves.get("l", []):
            for y in ctx.fresh_leaves.get("r", []):
                E.assume(implies(py_equal(x, y), json_identical(x, y)))
    info = dict(with_ids=with_ids, sl=sl, sr=sr, insl=insl, insr=insr, nl=nl, nr=nr, ctx=ctx)
    return G.finalize(base), G.finalize(L), G.finalize(R), info


def run_merge(b, l, r, args):
    from nbdime.merging.notebooks import merge_notebooks
    return merge_notebooks(b, l, r, args)


def _stale_records(nb):
    out = []
    for md in [nb.get("metadata", {})] + [c.get("metadata", {}) for c in nb.get("cells", [])]:
        if "nbdime-conflicts" in md:
            out.append(repr(md["nbdime-conflicts"]))
    for c in nb.get("cells", []):
        for name, val in sorted((c.get("attachments") or {}).items()):
            if name.startswith(("LOCAL_", "REMOTE_")):
                out.append((name, repr(val)))
    return out


def stale_record_touched(b, l, r):
    """Input class of F27: a conflict record of an earlier merge that base
    carries was removed or changed by one of the sides."""
    rb = _stale_records(b)
    return bool(rb) and (_stale_records(l) != rb or _stale_records(r) != rb)


def cell_type_changed(b, l, r):
    """Input class of F28: a side holds a cell of base (same id, or same
    position when there are no ids) under another cell_type."""
    for side in (l, r):
        for i, c in enumerate(b.get("cells", [])):
            if "id" in c:
                twins = [x for x in side.get("cells", []) if x.get("id") == c["id"]]
            else:
                twins = side.get("cells", [])[i:i + 1] if len(side.get("cells", [])) == len(b["cells"]) else []
            if any(x["cell_type"] != c["cell_type"] for x in twins):
                return True
    return False


def nul_source_edited_twice(b, l, r):
    """Input class of F30: a cell source with a NUL character that both sides
    changed (cells taken by position; only used when the cell lists line up)."""
    cb, cl, cr = (n.get("cells", []) for n in (b, l, r))
    if not (len(cb) == len(cl) == len(cr)):
        return False
    for x, y, z in zip(cb, cl, cr):
        sx_, sy, sz = x.get("source", ""), y.get("source", ""), z.get("source", "")
        if "\x00" in sx_ + sy + sz and sy != sx_ and sz != sx_:
            return True
    return False


def mixed_id_versions(b, l, r):
    """Input class of F21: one input declares format 4.5 while another one is
    older and has cells without ids."""
    nbs = (b, l, r)
    return any(n.get("nbformat_minor", 0) == 5 for n in nbs) and any(
        "id" not in c for n in nbs for c in n.get("cells", []))


def source_lines(nb):
    out = []
    for c in nb.get("cells", []):
        s = c.get("source", "")
        if isinstance(s, list):
            s = "".join(s)
        out.append(s)
    return out


def merge_obligations(E, b, l, r, args, tool, props, known, info=None):
    """Run the merge and state the obligations of the selected properties.
    Returns (merged, decisions) or None."""
    c13 = "C13" in props
    if "F13" in known and tool == "diff3" and ("C07" in props) and any(
            s_ and not s_.endswith("\n") for nb in (b, l, r) for s_ in source_lines(nb)):
        # F13: diff3 glues its markers to a last line that has no newline
        E.known("F13")
        return None
    if "F30" in known and tool == "diff3" and ("C07" in props) and nul_source_edited_twice(b, l, r):
        # F30, diff3 form: diff3 refuses the "binary" input and prints nothing,
        # the merged source silently becomes ''
        E.known("F30")
        return None
    if c13:
        snaps = (snapshot(b), snapshot(l), snapshot(r))
    try:
        res = run_merge(b, l, r, args)
        merged, decisions = res
    except Exception as ex:  # noqa
        import traceback
        tb = traceback.extract_tb(ex.__traceback__)
        where = "%s:%d %s" % (tb[-1].filename.split("/nbdime/")[-1], tb[-1].lineno, tb[-1].name)
        sig = "%s: %s @ %s" % (type(ex).__name__, str(ex)[:120], where)
        fid = common.match_exception_finding(known, sig)
        if fid == "F27" and not stale_record_touched(b, l, r):
            fid = None      # outside the recorded input class
        if fid:
            E.known(fid)
            return None
        if "C03" in props or "C09" in props or "C10" in props or "C07" in props:
            E.fail("merge-raised", sig)
        if "C11" in props:
            # the decisions may exist even though applying them failed
            from nbdime.merging.notebooks import decide_notebook_merge
            try:
                decisions = decide_notebook_merge(b, l, r, args)
            except Exception:  # noqa
                return None
            decision_obligations_nb(E, b, l, r, None, decisions, ("C11",), known, False)
        return None
    conflicted = any(d.conflict for d in decisions)
    E.nontrivial(len(decisions) > 0)
    E.goal("conflict", conflicted)
    E.goal("clean-two-sided", not conflicted and any(d.local_diff for d in decisions)
           and any(d.remote_diff for d in decisions))
    for d in decisions:
        if d.get("strategy"):
            pass
        E.goal("action-" + str(d.action))
        if d.action == "custom" and d.conflict:
            E.goal("custom-conflict")
    if "C03" in props:
        E.check("merge-returns-notebook-and-list",
                isinstance(merged, dict) and isinstance(decisions, list) and "cells" in merged)
    if c13:
        # the diffs handed to decide_merge_with_diff by a caller must come back unchanged
        from nbdime.diffing.notebooks import diff_notebooks
        from nbdime.merging.generic import decide_merge_with_diff
        from nbdime.merging.notebooks import notebook_merge_strategies
        dl, dr = diff_notebooks(b, l), diff_notebooks(b, r)
        sdl, sdr = snapshot(dl), snapshot(dr)
        try:
            decide_merge_with_diff(b, l, r, dl, dr, notebook_merge_strategies(args))
        except Exception:  # noqa  (C03's business)
            pass
        E.check("decide-leaves-supplied-local-diff-unchanged", unchanged(dl, sdl))
        E.check("decide-leaves-supplied-remote-diff-unchanged", unchanged(dr, sdr))
        E.check("merge-leaves-base-unchanged", unchanged(b, snaps[0]))
        E.check("merge-leaves-local-unchanged", unchanged(l, snaps[1]))
        E.check("merge-leaves-remote-unchanged", unchanged(r, snaps[2]))
        sh = shared_containers(merged, [("base", b)])
        E.check("merged-shares-no-container-with-base", not sh, info=sh[:3])
    if "C04" in props:
        errs = schemas.nb_schema_errors(E.instance(merged))
        errs2 = []
        for e in errs:
            fid = common.match_schema_finding(known, e, E.instance(merged))
            if fid == "F21" and not mixed_id_versions(b, l, r):
                fid = None      # outside the recorded input class
            if fid == "F28" and not cell_type_changed(b, l, r):
                fid = None
            if fid:
                E.known(fid)
            else:
                errs2.append(e)
        E.goal("merged-has-marker-cells", any("marker" in str(c.get("id", "")) or
               "<span style=\"color:red\">" in str(c.get("source", "")) for c in merged.cells))
        E.check("merged-validates-against-declared-format", not errs2, info=errs2[:3])
    if "C07" in props:
        fab = fabricated_lines(source_lines(b), source_lines(l), source_lines(r), source_lines(merged))
        E.check("no-fabricated-source-line", not fab, info=fab[:3])
        drop = dropped_lines(source_lines(b), source_lines(l), source_lines(r), source_lines(merged))
        E.check("no-dropped-added-line", not drop, info=drop[:3])
    if "C09" in props or "C11" in props:
        relabel_ok = args.merge_strategy == "mergetool"
        decision_obligations_nb(E, b, l, r, merged, decisions, props, known, relabel_ok)
    return merged, decisions


def decision_obligations_nb(E, b, l, r, merged, decisions, props, known, relabel_ok):
    extra = ("take_max",) if "F15" in known else ()
    if any(d.action == "take_max" for d in decisions) and "F15" in known:
        E.known("F15")
    if "C09" in props:
        try:
            rm = refapply(b, decisions, extra_actions=extra)
        except (RefApplyError, RefPatchError) as ex:
            E.fail("refapply-rejects-decisions", str(ex)[:300])
            return
        E.check("refapply(base,decisions)==merged", json_identical(rm, merged))
        if relabel_ok:
            for side, target in (("local", l), ("remote", r)):
                def relabel(dec, side=side):
                    return side if dec.get(side + "_diff") else "base"
                try:
                    x = refapply(b, decisions, relabel=relabel, extra_actions=extra)
                except (RefApplyError, RefPatchError) as ex:
                    E.fail("choose-%s-rejected" % side, str(ex)[:300])
                    return
                E.check("choose-%s-everywhere==%s" % (side, side), json_identical(x, target))
        errs = ordering_errors(decisions)
        E.check("decisions-ordered-inner-before-enclosing", not errs, info=errs[:2])
        inst = E.instance([dict(d) for d in decisions])
        errs = schemas.merge_schema_errors(inst)
        if "F15" in known:
            errs = [e for e in errs if "take_max" not in e]
        E.check("decisions-validate-against-schema", not errs, info=errs[:3])
        E.check("decisions-survive-json-roundtrip", schemas.json_roundtrip_ok(inst))
    if "C11" in props:
        from oracles.wellformed import wellformed
        for i, d in enumerate(decisions):
            try:
                sub, level = fam_merge.sub_document(b, d.common_path)
            except (KeyError, IndexError, TypeError):
                E.fail("decision-path-unresolvable", repr(d.common_path))
                return
            for field in ("local_diff", "remote_diff", "custom_diff"):
                df = d.get(field)
                if df:
                    if any(e.get("op") == "parent_deleted" for e in _walk_entries(df)):
                        E.goal("parent-deleted-op")
                    errs = wellformed(df, sub, path="dec%d.%s" % (i, field), level=level)
                    E.check("decision-diff-wellformed", not errs, info=errs[:3])


def _walk_entries(diff):
    for e in diff:
        yield e
        if e.get("op") == "patch" and isinstance(e.get("diff"), list):
            for x in _walk_entries(e["diff"]):
                yield x


# ------------------------------------------------------------------ factories
def make_default(templates, acts="ACTS_CODE", ins=(1, 1), nbacts=("keep",), ids=(0, 1), tool="git",
                 strat=("inline", None, None, True), props=("C03",), known=(),
                 sym=("ec", "md", "json", "minor"), conflict_only=False, runs=False, sameid=False,
                 warm=False):
    """One strategy configuration, full product of local x remote scripts.
    warm: the merge under test is the second one of its process -- a first,
    concrete, conflicted merge (with or without cell ids) has run before it."""
    acts_ = globals()[acts]

    def h(E):
        install_env(tool)
        F16_EXCLUDE[0] = "F16" in known
        if warm:
            w = E.choice("warm", 3)
            if w:
                wctx = G.Ctx(E, w == 1, sym=())
                wb = G.base_notebook(wctx, ("codeA", "md"))
                wl = G.derive(wctx, wb, "l", ["keep", "src1"], {1: "N1"}, "keep")
                wr = G.derive(wctx, wb, "r", ["keep", "src2"], {1: "N2"}, "keep")
                try:
                    run_merge(G.finalize(wb), G.finalize(wl), G.finalize(wr), mk_args(*strat))
                except Exception:  # noqa  (not the merge under test)
                    pass
        src = INS_RUNS if runs else INS_SIDE
        if sameid:
            src = {"l": [None, ("Nxc", 0), ("Nxe", 0), ("Nxt", 0)], "r": [None, ("Nxm", 0), ("Nxc", 0), ("Nxt", 0), ("Nxe", 0)]}
        b, l, r, info = gen_triple(
            E, templates, acts_, acts_,
            src["l"] if ins[0] else [None], src["r"] if ins[1] else [None],
            nbacts, ids, sym, conflict_only)
        fam_nbdiff.assert_valid_inputs(E, b, l, r)
        args = mk_args(*strat)
        merge_obligations(E, b, l, r, args, tool, props, known, info)
    return h, dict(reset=common.nbdime_reset)


def make_strategies(templates, script, tools=TOOLS, ids=(0,), props=("C03",), known=(),
                    sym=("ec", "md"), which="all"):
    """A fixed conflict-prone script pair under the whole strategy product
    (4 x 5 x 7 x 2 + mergetool) and every text-merge back end."""
    sl, sr, insl, insr = script

    def h(E):
        tool = tools[E.choice("tool", len(tools))] if len(tools) > 1 else tools[0]
        install_env(tool)
        mt = E.choice("mergetool", 2) if which == "all" else 0
        if mt:
            args = mk_args("mergetool", None, None, bool(E.choice("transients", 2)))
        else:
            ms = MERGE_STRATS[E.choice("ms", len(MERGE_STRATS))]
            i_s = INPUT_STRATS[E.choice("is", len(INPUT_STRATS))]
            os_ = OUTPUT_STRATS[E.choice("os", len(OUTPUT_STRATS))]
            tr = bool(E.choice("transients", 2))
            args = mk_args(ms, i_s, os_, tr)
        with_ids = ids[E.choice("ids", len(ids))] if len(ids) > 1 else ids[0]
        ctx = G.Ctx(E, bool(with_ids), sym=sym)
        base = G.base_notebook(ctx, templates)
        L = G.derive(ctx, base, "l", list(sl), dict(insl), "keep")
        R = G.derive(ctx, base, "r", list(sr), dict(insr), "keep")
        b, l, r = G.finalize(base), G.finalize(L), G.finalize(R)
        fam_nbdiff.assert_valid_inputs(E, b, l, r)
        merge_obligations(E, b, l, r, args, tool, props, known)
    return h, dict(reset=common.nbdime_reset)


CONFLICT_SCRIPTS = [
    # (templates, local script, remote script, local inserts, remote inserts)
    (("codeA",), ("src1",), ("src2",), {}, {}),                  # same line, different text
    (("codeA",), ("del",), ("src1",), {}, {}),                   # delete vs edit
    (("codeA",), ("src1",), ("del",), {}, {}),
    (("codeA",), ("out_edit",), ("out_edit2",), {}, {}),         # output conflict
    (("codeA",), ("md_edit",), ("md_edit",), {}, {}),            # metadata conflict
    (("codeA",), ("keep",), ("keep",), {0: "N1"}, {0: "N1s"}),   # similar concurrent inserts
    (("codeA",), ("keep",), ("keep",), {1: "N1"}, {1: "N2"}),    # dissimilar concurrent inserts
    (("codeA",), ("del",), ("keep",), {}, {0: "N2"}),            # insert next to deleted
    (("codeB",), ("rerun",), ("rerun",), {}, {}),                # both re-run
    (("codeB",), ("rerun",), ("src1",), {}, {}),
    (("mdAtt",), ("att_edit",), ("att_edit",), {}, {}),          # attachment conflict
    (("mdAtt",), ("att_add",), ("att_add",), {}, {}),
    (("mdAtt",), ("att_del",), ("att_edit",), {}, {}),
    (("codeA", "codeB"), ("src1", "del"), ("src2", "out_edit"), {}, {}),
    (("codeRes2",), ("out_edit",), ("rerun",), {}, {}),
    (("codeDisp",), ("out_edit",), ("out_edit2",), {}, {}),
    (("codeJobj",), ("out_edit",), ("out_edit2",), {}, {}),
    (("md",), ("src1",), ("src2",), {}, {}),
    (("codeS",), ("src1",), ("src2",), {}, {}),
    (("codeA",), ("keep",), ("keep",), {0: "NmA"}, {0: "NmB"}),  # similar inserts, attachments differ
    ((), (), (), {0: "NmA"}, {0: "NmB"}),                        # empty base, both add
    ((), (), (), {0: "N1"}, {0: "N2"}),                          # empty base, dissimilar inserts
    (("codeL",), ("src1",), ("src2",), {}, {}),                  # two separate conflict regions in one cell
    (("codeA",), ("src1",), ("src7",), {}, {}),                  # remote empties the source
    (("codeTr",), ("md_scrolled_true",), ("md_scrolled_auto",), {}, {}),   # transient metadata conflict
    (("codeTr",), ("md_del_collapsed",), ("md_collapsed",), {}, {}),
    (("codeRes2",), ("out_del_last",), ("out_ec",), {}, {}),     # delete output vs transient-only change
    (("codeRes2",), ("out_add_front",), ("out_del",), {}, {}),   # insert before a deleted output
    (("codeA",), ("src8",), ("src9",), {}, {}),                  # insert a line before a deleted line
    (("codeA",), ("keep",), ("keep",), {0: ("N2", "N3", "N1")}, {0: ("N4", "N1s")}),   # unequal runs + similar tail
    (("codeRes2",), ("rerun",), ("rerun2",), {}, {}),            # output conflict + execution counts differ
    (("codeA",), ("out_edit_add",), ("out_edit2_add2",), {}, {}),   # conflict + common and one-sided appended outputs
    (("codeRes2",), ("out_edit",), ("out_edit_md",), {}, {}),    # conflict + one-sided nested change in the same list
    (("codeA",), ("del",), ("edit_rerun",), {}, {}),              # delete vs edit source and outputs
    (("mdAtt1",), ("att_edit_1",), ("att_edit",), {}, {}),       # clean edits under an integer-like and an ordinary key
    (("codeB",), ("del",), ("md_src",), {}, {}),                 # delete vs metadata + source edit
    (("codeTr",), ("del",), ("collapsed_src",), {}, {}),         # delete vs transient flag + source edit
    (("codeA",), ("md_empty_add",), ("md_empty_set",), {}, {}),  # empty-string metadata values
    (("codeA0",), ("out_add",), ("out_add2",), {}, {}),          # conflicting additions to an empty outputs list
    (("codeJvnd",), ("out_edit",), ("out_edit2",), {}, {}),      # vendor JSON payload edited on both sides
    (("md",), ("to_code",), ("to_code",), {}, {}),               # both sides turn a markdown cell into a code cell
    (("codeQ",), ("src1",), ("src2",), {}, {}),                  # insert before a line + patch of that line vs another insert
    (("codeE",), ("src1",), ("src2",), {}, {}),                  # empty base source filled in on both sides
]


# --------------------------------------------------------------------- shards
QUICK_TEMPLATES = ["codeA", "codeB", "mdAtt", "codeRes2", "codeS", "raw", "codeJobj", "codeErr", "codeT"]


ACTS_INS = ["keep", "del", "src1"]
ACTS_KEEP = ["keep"]
ACTS_TRANSIENT = ["keep", "md_del_collapsed", "md_collapsed", "md_scrolled_true", "md_scrolled_auto", "md_edit", "ec",
                  "del", "src1", "collapsed_src", "md_src"]
ACTS_INTKEYS = ["keep", "att_edit_1", "att_edit", "md_edit_2024", "md_edit_note", "src1"]
ACTS_STALE = ["keep", "unstale_edit", "md_edit", "att_edit", "src1"]
ACTS_TYPE_MD = ["keep", "to_code", "to_code_src", "src1", "md_edit", "att_edit"]
ACTS_TYPE = ["keep", "to_md", "rerun", "out_edit", "ec", "src1", "md_edit"]
ACTS_NUMS = ["keep", "nums_add", "nums_append", "nums_replace"]
ACTS_NUL = ["keep", "src1", "src2", "del"]
ACTS_LONG = ["keep", "src1", "src2", "src3", "src4", "src7", "src8", "src9", "del"]
ACTS_OUTS = ["keep", "out_add_front", "out_ec", "out_del", "out_del_last", "out_edit", "out_add", "out_add2", "rerun",
             "rerun2", "out_edit_add", "out_edit2_add2", "out_edit_md", "edit_rerun", "del", "out_edit_ec", "out_edit2_ec"]
ACTS_EMPTYSRC = ["keep", "src1", "src7", "src4"]
ACTS_LINES = ["keep", "src1", "src8", "src9", "src3", "src10", "src11"]
ACTS_WARM = ["keep", "del", "src1", "src2"]
ACTS_Q = ["keep", "src1", "src2", "src3", "src4", "src6"]
ACTS_WS = ["keep", "src12", "src13", "src1"]
ACTS_EMPTY = ["keep", "src1", "src2", "src3", "del"]
ACTS_ATT_IN = ["keep", "att_edit", "src1", "att_add"]
ACTS_DISP = ["keep", "out_edit", "out_edit2", "out_add"]
ACTS_F13 = ["src1", "src4"]
ACTS_F24 = ["src3", "src4"]
ACTS_TAGS = ["tag_front", "tag_back"]
ACTS_PAIR = ["keep", "del", "src1", "src2", "rerun", "md_edit"]


def scenario_shards(tier, tool, kw):
    """Targeted scenarios with small action sets (each is a full local x
    remote product inside its set)."""
    out = []

    def add(name, **params):
        p = dict(kw)
        p.update(params)
        out.append(("make_default", "scn-%s-%s" % (name, tool), dict(tool=tool, nbacts=("keep",), **p)))
    add("runs-codeA", templates=("codeA",), acts="ACTS_INS", ins=(1, 1), runs=True)
    add("runs-empty", templates=(), acts="ACTS_KEEP", ins=(1, 1), runs=True)
    add("ins-empty", templates=(), acts="ACTS_KEEP", ins=(1, 1))
    add("transient", templates=("codeTr",), acts="ACTS_TRANSIENT", ins=(0, 0))
    add("long", templates=("codeL",), acts="ACTS_LONG", ins=(0, 0))
    add("outputs", templates=("codeRes2",), acts="ACTS_OUTS", ins=(0, 0))
    add("outputs-emp", templates=("codeEmp",), acts="ACTS_OUTS", ins=(0, 0))
    add("mime", templates=("codeMime",), acts="ACTS_SMALL", ins=(0, 0))
    add("unicode", templates=("codeU",), acts="ACTS_LINES", ins=(0, 0))
    add("lines", templates=("codeA",), acts="ACTS_LINES", ins=(0, 0))
    add("intkeys", templates=("mdAtt1",), acts="ACTS_INTKEYS", ins=(0, 0))
    out.append(("make_default", "scn-upgrade-%s" % tool,
                dict(dict(kw, ids=(0,)), tool=tool, templates=("codeA",), acts="ACTS_WARM", ins=(1, 1),
                     nbacts=("keep", "upgrade"))))
    add("second-merge", templates=("codeA",), acts="ACTS_WARM", ins=(1, 1), warm=True)
    add("stale-md", templates=("codeStale",), acts="ACTS_STALE", ins=(0, 0))
    add("stale-md0", templates=("codeStale0",), acts="ACTS_STALE", ins=(0, 0))
    add("patchins", templates=("codeQ",), acts="ACTS_Q", ins=(0, 0))
    add("empty-src", templates=("codeE",), acts="ACTS_EMPTY", ins=(0, 0), ids=(1,))
    add("whitespace", templates=("codeA",), acts="ACTS_WS", ins=(0, 0), ids=(1,))
    add("stale-att", templates=("mdStale",), acts="ACTS_STALE", ins=(0, 0))
    add("type", templates=("codeA",), acts="ACTS_TYPE", ins=(0, 0), ids=(1,))
    add("type-md", templates=("md",), acts="ACTS_TYPE_MD", ins=(0, 0), ids=(1,))
    add("nums", templates=("codeNums",), acts="ACTS_NUMS", ins=(0, 0))
    add("nul", templates=("codeNul",), acts="ACTS_NUL", ins=(0, 0))
    add("sameid", templates=(), acts="ACTS_KEEP", ins=(1, 1), ids=(1,), sameid=True)
    if tier == "thorough":
        add("runs-pair", templates=("codeA", "codeB"), acts="ACTS_KEEP", ins=(1, 1), runs=True)
        add("lol", templates=("codeLol",), acts="ACTS_SMALL", ins=(0, 0))
    return out


def default_shards(tier, props, known, tools=("git",), conflict_only=False, templates=None):
    """Default-strategy (or any single configuration via `strat`) shards:
    per template (i) every local action x every remote action, (ii) every
    insertion combination x a small action set, (iii) notebook-level actions;
    plus two-cell bases with a reduced action set."""
    kw = dict(props=tuple(props), known=tuple(known), conflict_only=conflict_only)
    out = []
    templates = templates or (QUICK_TEMPLATES if tier == "quick" else fam_nbdiff.ALL_TEMPLATES)
    for tool in tools:
        for t in templates:
            acts = "ACTS_MD" if G.TEMPLATES[t]["type"] == "markdown" else "ACTS_CODE"
            out.append(("make_default", "act-%s-%s" % (tool, t),
                        dict(templates=(t,), acts=acts, ins=(0, 0), nbacts=("keep",), tool=tool, **kw)))
            out.append(("make_default", "ins-%s-%s" % (tool, t),
                        dict(templates=(t,), acts="ACTS_INS", ins=(1, 1), nbacts=("keep",), tool=tool, **kw)))
        for t in templates[:2]:
            out.append(("make_default", "nb-%s-%s" % (tool, t),
                        dict(templates=(t,), acts="ACTS_INS", ins=(0, 0),
                             nbacts=("keep", "md_edit", "md_add", "md_del", "minor"), tool=tool, **kw)))
        out += scenario_shards(tier, tool, kw)
        pairs = [("codeA", "codeB")] if tier == "quick" else [
            ("codeA", "codeB"), ("codeA", "mdAtt"), ("codeS", "codeS"), ("codeA", "codeA"), ("md", "codeRes2")]
        for p in pairs:
            out.append(("make_default", "pair-%s-%s-%s" % ((tool,) + p),
                        dict(templates=p, acts="ACTS_PAIR", ins=(0, 0), nbacts=("keep",), tool=tool, **kw)))
            if tier == "thorough":
                out.append(("make_default", "pairins-%s-%s-%s" % ((tool,) + p),
                            dict(templates=p, acts="ACTS_INS", ins=(1, 1), nbacts=("keep",), tool=tool, **kw)))
    return out


def strategy_shards(tier, props, known, tools=TOOLS, which="all"):
    kw = dict(props=tuple(props), known=tuple(known))
    out = []
    for i, (tm, sl, sr, il, ir) in enumerate(CONFLICT_SCRIPTS):
        out.append(("make_strategies", "strat-%02d" % i,
                    dict(templates=tm, script=(sl, sr, tuple(il.items()), tuple(ir.items())),
                         tools=tools, ids=(0, 1) if (tier == "thorough" or i >= 19) else ((0,) if i % 2 else (1,)),
                         which=which, **kw)))
    return out


# ------------------------------------------------------------------ C10
USE = ("use-base", "use-local", "use-remote")
ACTS_SRC = ["keep", "src1", "src2", "src4", "src5"]   # edits that keep the cell similar (conflicts stay inside the source)
ACTS_OUT = ["keep", "out_edit", "out_edit2", "out_add", "out_del"]
ACTS_OUT2 = ["keep", "out_add_front", "out_del", "out_del_last", "out_edit", "out_add2"]      # outputs list only
ACTS_LINES_SIM = ["keep", "src1", "src8", "src9", "src5"]      # similar edits incl. line insertion / deletion   # touch nothing but the outputs list


def make_use(templates, mode="merge", acts="ACTS_SMALL", ins=(0, 0), ids=(0, 1), tools=("git",),
             props=("C10",), known=(), sym=("ec", "md"), mixed=False):
    """mode 'merge': --merge-strategy s; 'input' / 'output': s given as input /
    output strategy with scripts that can only conflict inside sources /
    outputs.  Compared with the mergetool decisions with every conflicted
    decision relabelled to that side, applied by the reference applier."""
    acts_ = globals()[acts]

    def h(E):
        from nbdime.merging.notebooks import decide_notebook_merge
        tool = tools[E.choice("tool", len(tools))] if len(tools) > 1 else tools[0]
        install_env(tool)
        s = USE[E.choice("use", 3)]
        tr = bool(E.choice("transients", 2))
        b, l, r, info = gen_triple(
            E, templates, acts_, acts_,
            INS_SIDE["l"] if ins[0] else [None], INS_SIDE["r"] if ins[1] else [None],
            ("keep",), ids, sym)
        root = "inline"
        if mixed and mode != "merge" and E.choice("root", 2):
            # the general strategy names another side than the specific one
            root = USE[(USE.index(s) + 1) % 3]
        if mode == "merge":
            args = mk_args(s, None, None, tr)
        elif mode == "input":
            args = mk_args(root, s, None, tr)
        else:
            args = mk_args(root, None, s, tr)
        try:
            m1, d1 = run_merge(b, l, r, args)
            d0 = decide_notebook_merge(b, l, r, mk_args("mergetool", None, None, tr))
        except Exception as ex:  # noqa
            E.fail("merge-raised", "%s: %s" % (type(ex).__name__, str(ex)[:200]))
            return
        had_conflict = any(d.conflict for d in d0)
        E.nontrivial(had_conflict)
        E.goal("open-conflict-resolved", had_conflict)
        E.check("use-strategy-leaves-no-conflict", not any(d.conflict for d in d1),
                info="%s/%s scripts %r %r ins %r %r: %r" % (
                    s, mode, info["sl"], info["sr"], info["insl"], info["insr"],
                    [dict(path=d.common_path, action=d.action) for d in d1 if d.conflict][:2]))
        side = s[4:]

        def relabel(dec):
            if dec.get("conflict"):
                return side
            return dec["action"]
        try:
            m2 = refapply(b, d0, relabel=relabel)
        except (RefApplyError, RefPatchError) as ex:
            E.fail("reference-resolution-rejected", str(ex)[:300])
            return
        E.check("use-strategy==resolve-every-conflict-to-that-side", json_identical(m1, m2),
                info="strategy %s (%s)" % (s, mode))
        fab = fabricated_lines(source_lines(b), source_lines(l), source_lines(r),
                               source_lines(m1), allow_markers=False)
        if fab and "F24" in known and any(
                x and not x.endswith("\n") for nb in (l, r) for x in source_lines(nb)) and all(
                    not x or x.endswith("\n") for x in source_lines(b)):
            # F24: one side drops the final newline of a source, the other appends a line
            E.known("F24")
        else:
            E.check("no-source-line-absent-from-all-inputs", not fab, info=fab[:3])
    return h, dict(reset=common.nbdime_reset)


def use_shards(tier, props, known):
    kw = dict(props=tuple(props), known=tuple(known))
    out = []
    singles = ["codeA", "codeB", "mdAtt", "codeRes2"] if tier == "quick" else fam_nbdiff.ALL_TEMPLATES
    for t in singles:
        acts = "ACTS_MD" if G.TEMPLATES[t]["type"] == "markdown" else ("ACTS_SMALL" if tier == "quick" else "ACTS_CODE")
        out.append(("make_use", "use-merge-%s" % t, dict(templates=(t,), mode="merge", acts=acts, **kw)))
        out.append(("make_use", "use-merge-ins-%s" % t,
                    dict(templates=(t,), mode="merge", acts="ACTS_INS", ins=(1, 1), **kw)))
    for t in ["codeA", "codeRes2"] + (["md", "codeS"] if tier == "thorough" else []):
        out.append(("make_use", "use-input-%s" % t, dict(templates=(t,), mode="input", acts="ACTS_SRC", **kw)))
    for t in ["codeA", "codeRes2"] + (["codeDisp", "codeJobj"] if tier == "thorough" else []):
        out.append(("make_use", "use-output-%s" % t, dict(templates=(t,), mode="output", acts="ACTS_OUT", **kw)))
    for name, tm, acts in [("outputs", "codeRes2", "ACTS_OUTS"), ("lines", "codeA", "ACTS_LINES"),
                           ("transient", "codeTr", "ACTS_TRANSIENT"), ("long", "codeL", "ACTS_LONG"),
                           ("emptysrc", "codeA", "ACTS_EMPTYSRC")]:
        out.append(("make_use", "use-scn-%s" % name, dict(templates=(tm,), mode="merge", acts=acts, **kw)))
    out.append(("make_use", "use-scn-patchins", dict(templates=("codeQ",), mode="merge", acts="ACTS_Q", **kw)))
    out.append(("make_use", "use-scn-empty-src", dict(templates=("codeE",), mode="merge", acts="ACTS_EMPTY", ids=(1,), **kw)))
    out.append(("make_use", "use-scn-input-att", dict(templates=("mdAtt",), mode="input", acts="ACTS_ATT_IN", mixed=True, **kw)))
    out.append(("make_use", "use-scn-output-img", dict(templates=("codeImgS",), mode="output", acts="ACTS_DISP", mixed=True, **kw)))
    out.append(("make_use", "use-scn-output-img-m", dict(templates=("codeImgS",), mode="merge", acts="ACTS_DISP", **kw)))
    out.append(("make_use", "use-scn-output-disp", dict(templates=("codeDisp",), mode="output", acts="ACTS_DISP", **kw)))
    out.append(("make_use", "use-scn-output-outs", dict(templates=("codeRes2",), mode="output", acts="ACTS_OUT2", **kw)))
    out.append(("make_use", "use-scn-input-lines", dict(templates=("codeA",), mode="input", acts="ACTS_LINES_SIM", **kw)))
    pairs = [("codeA", "codeB")] + ([("codeA", "codeA"), ("md", "codeRes2")] if tier == "thorough" else [])
    for p in pairs:
        out.append(("make_use", "use-merge-%s-%s" % p,
                    dict(templates=p, mode="merge", acts="ACTS_PAIR" if tier == "thorough" else "ACTS_INS",
                         tools=("git",), **kw)))
    if tier == "thorough":
        out.append(("make_use", "use-tools-codeA", dict(templates=("codeA",), mode="merge", acts="ACTS_SRC",
                                                        tools=TOOLS, **kw)))
    return out


# ------------------------------------------------------------------ C05 (notebooks)
CLI_CONFIGS = [("inline", None, None, True), ("use-base", None, None, True), ("use-local", None, None, True),
               ("use-remote", None, None, True), ("inline", "use-local", "remove", False),
               ("inline", None, "clear-all", True), ("mergetool", None, None, True),
               ("inline", None, "remove", True), ("inline", None, None, True, "DEBUG")]


def make_nblaws(templates, acts="ACTS_CODE", ins=1, nbacts=("keep",), ids=(0, 1), configs=(0,),
                props=("C05",), known=(), sym=("ec", "md", "json", "minor")):
    acts_ = globals()[acts]

    def h(E):
        install_env("git")
        cfg = CLI_CONFIGS[configs[E.choice("cfg", len(configs))] if len(configs) > 1 else configs[0]]
        with_ids = ids[E.choice("ids", len(ids))] if len(ids) > 1 else ids[0]
        # DEBUG logging renders every value as text: concrete leaves there
        ctx = G.Ctx(E, bool(with_ids), sym=() if "DEBUG" in cfg else sym)
        base = G.base_notebook(ctx, templates)
        script = []
        for i, t in enumerate(templates):
            al = applicable_actions(t, acts_, with_ids)
            script.append(al[E.choice("x%d" % i, len(al))])
        insx = {}
        if ins:
            c = INS_SIDE["l"][E.choice("xi", len(INS_SIDE["l"]))]
            if c:
                insx = {min(c[1], len(templates)): c[0]}
        nba = nbacts[E.choice("xnb", len(nbacts))] if len(nbacts) > 1 else nbacts[0]
        X = G.derive(ctx, base, "l", script, insx, nba)
        b, x = G.finalize(base), G.finalize(X)
        args = mk_args(*cfg)
        # expected results are copies taken before any merge ran (a merge that
        # edits its inputs in place must not move the goalposts)
        b0, x0 = snapshot(b), snapshot(x)
        cases = [("identity", b, b, b, b0), ("adopt-local", b, x, b, x0),
                 ("adopt-remote", b, b, x, x0), ("agreement", b, x, x, x0)]
        for name, bb, ll, rr, want in cases:
            try:
                m, ds = run_merge(bb, ll, rr, args)
            except Exception as ex:  # noqa
                E.fail("%s-raised" % name, "%s: %s" % (type(ex).__name__, str(ex)[:200]))
                return
            E.nontrivial(len(ds) > 0)
            E.goal("law-with-decisions", len(ds) > 0)
            E.check("%s-no-conflict" % name, not any(d.conflict for d in ds))
            E.check("%s-result" % name, json_identical(m, want),
                    info="config %r script %r %r %r" % (cfg, script, insx, nba))
    return h, dict(reset=common.nbdime_reset)


def make_nbsymmetry(templates, acts="ACTS_SMALL", ins=(0, 0), ids=(0, 1), configs=(0,),
                    props=("C05",), known=(), sym=("ec", "md")):
    acts_ = globals()[acts]

    def h(E):
        from nbdime.diffing.notebooks import diff_notebooks
        install_env("git")
        cfg = CLI_CONFIGS[configs[E.choice("cfg", len(configs))] if len(configs) > 1 else configs[0]]
        b, l, r, info = gen_triple(
            E, templates, acts_, acts_,
            INS_SIDE["l"] if ins[0] else [None], INS_SIDE["r"] if ins[1] else [None],
            ("keep",), ids, () if "DEBUG" in cfg else sym)
        args = mk_args(*cfg)
        if "F16" in known:
            # F16: a value newly set by local and one newly set by remote are
            # Python-equal but of different JSON type (agreement is decided by ==)
            from sx.values import py_equal
            for x in info["ctx"].fresh_leaves.get("l", []):
                for y in info["ctx"].fresh_leaves.get("r", []):
                    E.assume(implies(py_equal(x, y), json_identical(x, y)))
        dl = diff_notebooks(b, l)
        dr = diff_notebooks(b, r)
        if fam_merge.both_insert_same_position(dl, dr):
            E.goal("symmetry-proviso-excluded")
            return
        try:
            m1, d1 = run_merge(b, l, r, args)
            m2, d2 = run_merge(b, r, l, args)
        except Exception as ex:  # noqa
            E.fail("merge-raised", "%s: %s" % (type(ex).__name__, str(ex)[:200]))
            return
        c1 = any(d.conflict for d in d1)
        c2 = any(d.conflict for d in d2)
        E.nontrivial(len(d1) > 0)
        E.goal("conflict", c1)
        E.check("symmetry-conflict-verdict", c1 == c2,
                info="conflicted(l,r)=%s conflicted(r,l)=%s scripts %r %r" % (c1, c2, info["sl"], info["sr"]))
        if not c1 and not c2:
            E.goal("symmetry-clean")
            E.check("symmetry-merged-identical", json_identical(m1, m2),
                    info="scripts %r %r cfg %r" % (info["sl"], info["sr"], cfg))
    return h, dict(reset=common.nbdime_reset)


def nblaw_shards(tier, props, known):
    kw = dict(props=tuple(props), known=tuple(known))
    out = []
    singles = QUICK_TEMPLATES if tier == "quick" else fam_nbdiff.ALL_TEMPLATES
    cfgs = (0, 2, 4, 8) if tier == "quick" else tuple(range(len(CLI_CONFIGS)))
    for t in singles:
        acts = "ACTS_MD" if G.TEMPLATES[t]["type"] == "markdown" else "ACTS_CODE"
        out.append(("make_nblaws", "nblaw-%s" % t,
                    dict(templates=(t,), acts=acts, ins=1, nbacts=("keep", "md_edit", "minor"),
                         configs=cfgs, **kw)))
    for p in [("codeA", "codeB")] + ([("md", "codeRes2"), ("codeS", "codeS")] if tier == "thorough" else []):
        out.append(("make_nblaws", "nblaw-%s-%s" % p,
                    dict(templates=p, acts="ACTS_PAIR", ins=1, configs=cfgs[:2], **kw)))
    for t in (["codeA", "codeB", "mdAtt"] if tier == "quick" else singles):
        acts = "ACTS_MD" if G.TEMPLATES[t]["type"] == "markdown" else ("ACTS_SMALL" if tier == "quick" else "ACTS_CODE")
        out.append(("make_nbsymmetry", "nbsym-%s" % t, dict(templates=(t,), acts=acts, configs=cfgs[:1], **kw)))
        out.append(("make_nbsymmetry", "nbsym-ins-%s" % t,
                    dict(templates=(t,), acts="ACTS_INS", ins=(1, 1), configs=cfgs[:1], **kw)))
    out.append(("make_nbsymmetry", "nbsym-pair", dict(templates=("codeA", "codeB"), acts="ACTS_PAIR",
                                                      configs=cfgs[:1], **kw)))
    for name, tm, acts in [("transient", "codeTr", "ACTS_TRANSIENT"), ("outputs", "codeRes2", "ACTS_OUTS"),
                           ("lines", "codeA", "ACTS_LINES")]:
        out.append(("make_nbsymmetry", "nbsym-scn-%s" % name,
                    dict(templates=(tm,), acts=acts, configs=(0, 7) if name == "outputs" else cfgs[:1], **kw)))
        out.append(("make_nblaws", "nblaw-scn-%s" % name, dict(templates=(tm,), acts=acts, ins=0, configs=cfgs, **kw)))
    return out


# ------------------------------------------------------------------ C06 (notebooks)
OWN_ACTS = ["src1", "del", "rerun", "ec", "out_edit", "md_edit", "md_add", "out_clear"]
OWN_ACTS_SMALL = ["src1", "del", "rerun", "md_edit"]
OWN_ACTS_PASTE = ["del", "src1", "md_edit"]
OWN_ACTS_SHORT = ["del", "src1", "ec"]


def make_owned(templates, ids=(0, 1), acts="OWN_ACTS", inserts=True, props=("C06",), known=(),
               sym=("ec", "md"), ins_names=("N2", "Nm"), paste=False):
    """Each base cell is owned by nobody, local or remote (E.choice); only the
    owner changes it.  A side may insert a new cell into a gap only if neither
    neighbouring cell is owned by the other side, and at most one side inserts
    into a gap.  Expected result by construction: base with both action sets
    applied.  paste: a side that deletes cell g and inserts into gap g may
    also put a copy of the deleted cell (same content, new id -- cut and
    paste) in front of its new cell."""
    acts_ = globals()[acts]

    def h(E):
        install_env("git")
        with_ids = ids[E.choice("ids", len(ids))] if len(ids) > 1 else ids[0]
        ctx = G.Ctx(E, bool(with_ids), sym=sym)
        base = G.base_notebook(ctx, templates)
        n = len(templates)
        owner = [E.choice("own%d" % i, 3) for i in range(n)]
        sl, sr, se = [], [], []
        for i, t in enumerate(templates):
            if owner[i]:
                al = [a for a in applicable_actions(t, acts_, with_ids) if a != "keep"]
                a = al[E.choice("act%d" % i, len(al))]
            else:
                a = "keep"
            sl.append(a if owner[i] == 1 else "keep")
            sr.append(a if owner[i] == 2 else "keep")
            se.append((a, owner[i]))
        insl, insr = {}, {}
        pasted = {}
        if inserts:
            for g in range(n + 1):
                c = E.choice("ins%d" % g, 3)
                if c:
                    other = 3 - c
                    if (g > 0 and owner[g - 1] == other) or (g < n and owner[g] == other):
                        E.assume(False)
                    (insl if c == 1 else insr)[g] = ins_names[0] if c == 1 else ins_names[1]
                    if paste and with_ids and g < n and owner[g] == c and se[g][0] == "del" and E.choice("paste%d" % g, 2):
                        pasted[g] = c
        if not (any(o == 1 for o in owner) or insl) or not (any(o == 2 for o in owner) or insr):
            E.goal("one-sided-only")
        else:
            E.goal("both-sides-changed")
            E.nontrivial(True)
        # Build local, remote and the expectation with the *same* symbolic
        # leaves: derive each cell edit once and place it where it belongs.
        cells_l, cells_r, cells_e = [], [], []
        for g in range(n + 1):
            for side, ins in (("l", insl), ("r", insr)):
                if g in ins:
                    tm = dict(G.NEW_TEMPLATES[ins[g]])
                    if with_ids:
                        tm["id"] = G.NEW_IDS[side][0] + "g%d" % g
                    c = G.mk_cell(ctx, tm, "%s_i%d" % (side, g))
                    run = [c]
                    if pasted.get(g) == (1 if side == "l" else 2):
                        run = [dict(base["cells"][g], id="pasted%03d" % g), c]
                    (cells_l if side == "l" else cells_r).extend(run)
                    cells_e.extend(run)
            if g < n:
                cell = base["cells"][g]
                a, o = se[g]
                if not o:
                    new = [cell]
                else:
                    new = G.apply_action(ctx, cell, a, "%s%d" % ("l" if o == 1 else "r", g))
                cells_l.extend(new if o == 1 else [cell])
                cells_r.extend(new if o == 2 else [cell])
                cells_e.extend(new)
        L, R, X = dict(base), dict(base), dict(base)
        L["cells"], R["cells"], X["cells"] = cells_l, cells_r, cells_e
        b, l, r, want = G.finalize(base), G.finalize(L), G.finalize(R), G.finalize(X)
        fam_nbdiff.assert_valid_inputs(E, b, l, r)
        try:
            m, ds = run_merge(b, l, r, mk_args())
        except Exception as ex:  # noqa
            E.fail("merge-raised", "%s: %s" % (type(ex).__name__, str(ex)[:200]))
            return
        conf = [dict(path=d.common_path, action=d.action) for d in ds if d.conflict]
        if "F31" in known and any(g + 1 < n and owner[g + 1] == 3 - c for g, c in pasted.items()):
            # F31: the pasted copy is aligned with the deleted cell, which moves the
            # rest of the insertion next to the cell the other side changed
            E.known("F31")
            return
        E.check("different-cells-no-conflict", not conf,
                info="conflicts %r for owners %r actions %r inserts %r %r" % (conf[:2], owner, se, insl, insr))
        E.check("different-cells-merged==both-change-sets", json_identical(m, want),
                info="owners %r actions %r inserts %r %r" % (owner, se, insl, insr))
    return h, dict(reset=common.nbdime_reset)


def owned_shards(tier, props, known):
    kw = dict(props=tuple(props), known=tuple(known))
    out = []
    bases = [("codeA", "codeB"), ("codeA", "md"), ("codeB", "codeRes2")]
    if tier == "thorough":
        bases += [("codeA", "codeB", "md"), ("mdAtt", "codeA"), ("raw", "codeB"), ("codeTr", "codeL")]
    for tm in bases:
        out.append(("make_owned", "owned-" + "-".join(tm),
                    dict(templates=tm, inserts=True, **kw)))
    out.append(("make_owned", "owned3-short", dict(templates=("codeS1", "codeS2", "codeS3"), inserts=True,
                                                   acts="OWN_ACTS_SHORT", ins_names=("Ns", "Ns"), ids=(0,), **kw)))
    out.append(("make_owned", "owned-paste", dict(templates=("codeA", "codeB", "md"), inserts=True, paste=True,
                                                  acts="OWN_ACTS_PASTE", ids=(1,), **kw)))
    if tier == "quick":
        out.append(("make_owned", "owned3-codeA-codeB-md",
                    dict(templates=("codeA", "codeB", "md"), inserts=False, acts="OWN_ACTS_SMALL", **kw)))
    else:
        out.append(("make_owned", "owned4-codeA-codeB-md-raw",
                    dict(templates=("codeA", "codeB", "md", "raw"), inserts=False, acts="OWN_ACTS_SMALL", **kw)))
    return out


# ------------------------------------------------------------------ C07 flag clause
def make_flag(templates, which=0, other_acts="ACTS_INS", tools=TOOLS, props=("C07",), known=(),
              sym=("ec", "md"), variants=("src1", "src2")):
    """Id-aligned cells; both sides rewrite the same line of cell `which`
    differently (variants 1 and 2 of its source family, or 5 and 1 plus 2);
    the other cells take arbitrary small actions.  Must be flagged as a
    conflict and present both variants."""
    acts_ = globals()[other_acts]

    def h(E):
        tool = tools[E.choice("tool", len(tools))] if len(tools) > 1 else tools[0]
        install_env(tool)
        ctx = G.Ctx(E, True, sym=sym)
        base = G.base_notebook(ctx, templates)
        swap = E.choice("swap", 2)
        sl, sr = [], []
        for i, t in enumerate(templates):
            if i == which:
                a, b_ = variants if not swap else (variants[1], variants[0])
                sl.append(a)
                sr.append(b_)
            else:
                al = applicable_actions(t, acts_, True)
                sl.append(al[E.choice("l%d" % i, len(al))])
                sr.append(al[E.choice("r%d" % i, len(al))])
        L = G.derive(ctx, base, "l", sl, {}, "keep")
        R = G.derive(ctx, base, "r", sr, {}, "keep")
        b, l, r = G.finalize(base), G.finalize(L), G.finalize(R)
        fam = G.TEMPLATES[templates[which]]["src"]
        try:
            m, ds = run_merge(b, l, r, mk_args())
        except Exception as ex:  # noqa
            E.fail("merge-raised", "%s: %s" % (type(ex).__name__, str(ex)[:200]))
            return
        E.nontrivial(True)
        E.goal("same-line-rewritten")
        E.check("same-line-different-text-is-flagged", any(d.conflict for d in ds))
        k1, k2 = int(variants[0][3:]), int(variants[1][3:])
        v1 = [ln for ln in G.SRC[fam][k1].splitlines() if ln not in G.SRC[fam][0].splitlines()]
        v2 = [ln for ln in G.SRC[fam][k2].splitlines() if ln not in G.SRC[fam][0].splitlines()]
        merged_lines = set()
        for s_ in source_lines(m):
            merged_lines.update(s_.splitlines())
        missing = [ln for ln in v1 + v2 if ln not in merged_lines]
        E.check("both-variants-presented", not missing, info="missing %r (tool %s)" % (missing, tool))
    return h, dict(reset=common.nbdime_reset)


def flag_shards(tier, props, known):
    kw = dict(props=tuple(props), known=tuple(known))
    out = []
    for t in ["codeA", "codeB", "md", "raw", "codeS", "mdAtt", "codeRes2", "codeL", "codeU"]:
        out.append(("make_flag", "flag-%s" % t, dict(templates=(t,), which=0, **kw)))
    out.append(("make_flag", "flag-whitespace", dict(templates=("codeA",), which=0, variants=("src12", "src13"), **kw)))
    out.append(("make_flag", "flag-pair0", dict(templates=("codeA", "codeB"), which=0, **kw)))
    out.append(("make_flag", "flag-pair1", dict(templates=("codeB", "codeA"), which=1, **kw)))
    if tier == "thorough":
        out.append(("make_flag", "flag-tri", dict(templates=("codeB", "codeA", "md"), which=1,
                                                  other_acts="ACTS_PAIR", **kw)))
    return out


def with_strat(shards, strat, suffix):
    out = []
    for f, key, params in shards:
        p = dict(params)
        p["strat"] = strat
        out.append((f, key + suffix, p))
    return out


def with_tool(shards, tool, only=None):
    out = []
    for f, key, params in shards:
        if only and not any(o in key for o in only):
            continue
        p = dict(params)
        p["tool"] = tool
        nk = key.replace("-git-", "-%s-" % tool)
        if nk.endswith("-git"):
            nk = nk[:-4] + "-" + tool
        out.append((f, nk, p))
    return out


STUBS = ["nbdime.prettyprint.which -> answers according to the tool selector (git / diff3 / builtin / diffonly = plain diff present, git and diff3 absent, PATH of the subprocesses reduced accordingly); the real git merge-file / diff3 subprocesses run",
         "nbformat.v4.nbbase.random_cell_id -> deterministic counter (marker cells get random ids otherwise)",
         "isinstance inside nbdime modules -> sx.values.sym_isinstance (identical on ordinary objects)",
         "nbdime module-level differ tables restored to import-time state between paths",
         "logging silenced"]

BOUNDS = {
    "quick": {
        "default-strategy scripts": "one-cell bases over 8 templates: (i) every local action x every remote action (17 code / 11 markdown actions), (ii) every insertion combination (4 x 5) x {keep, del, src1}^2, (iii) notebook-level actions {keep, md_edit, md_add, md_del, minor}^2 on two templates; two-cell base codeA+codeB x 6 actions per cell and side; ids on/off",
        "strategy product": "40 conflict-prone script pairs x (4 merge x 5 input x 7 output strategies x transients on/off + mergetool) x {git, diff3, builtin}",
        "leaves": "symbolic: execution counts, metadata values (any JSON scalar type), JSON payload numbers, nbformat_minor of each notebook (0..4, or 5 with ids)",
    },
    "thorough": {
        "default-strategy scripts": "as quick over all 14 templates; five two-cell bases x 6 actions per cell and side plus insertions",
        "strategy product": "as quick with ids on and off",
        "leaves": "as quick",
    },
}
OUTSIDE = ["more than two base cells (three in the ownership harness) and more than one insertion per side",
           "string contents outside the pools of gen/notebooks.py", "merges of notebooks of different major versions",
           "sides that upgraded a 4.4 base to 4.5 beyond the scn-upgrade scenario (one cell, four actions, one insertion per side)"]


def f16_witness(chk, known):
    """KNOWN-FINDING line for F16 in the checks that ride on the merge family:
    the class is excluded from the exploration by a solver assumption; this
    small run (without the exclusion) asks for an instance and replays it."""
    if "F16" not in known:
        return
    from sx import runner
    w = runner.explore_inline(make_default(templates=("codeNums",), acts="ACTS_NUMS", ins=(0, 0), ids=(0,),
                                           props=("C03",), known=()), max_violations=1, budget_s=400)
    for v in w.violations:
        if "agreed merges should not be conflicted" in str(v.get("info")):
            chk.known_finding("F16", "both sides insert Python-equal values of different JSON type into a metadata list "
                              "(model %r): %s" % ({k: v["values"][k] for k in sorted(v["values"]) if k.startswith("md_")},
                                                  str(v["info"])[:90]))
            return
