"""C12 -- diffing is a pure function of its inputs: no dependence on process
history.

A history is a sequence of k operations on one freshly imported nbdime,
chosen by E.choice from: diff_notebooks, merge_notebooks, generic diff,
set_notebook_diff_targets (4 configurations), set_notebook_diff_ignores (3
mappings), reset_notebook_differ.  The notebooks carry at shared paths
(/metadata/a, /cells/0/metadata/a and an application/json output payload) a
value whose shape is a list of ints, a list of lists, a list of objects, an
object or a scalar; the last operation's notebooks have symbolic leaves.

Obligation on every feasible path: the outcome (result, decided by z3 with
json_identical for all leaf values, or exception type and message) of the last
operation of the history equals its outcome in a *pristine* nbdime -- the
package re-imported into a fresh module set in this process -- where only the
ignore options in force (configuration calls since the last reset) were
re-applied.  Counterexamples are replayed against a fresh interpreter
(subprocess) before they are reported.  Module-level state watched for the
evidence: keys of notebook_predicates / notebook_differs,
_merge_strings.recursion.  Non-trivial = the history contains an earlier
diff / merge.
"""
import sys

from sx import runner
from . import common, fam_history

PROP = "C12"


def main():
    common.silence_logging()
    t = common.tier()
    known = common.known_findings(PROP)
    kn = tuple(sorted(known))
    chk = common.Check(PROP, __doc__)
    r = runner.explore("harness.fam_history", fam_history.shards(t, (PROP,), kn), nproc=common.nproc(),
                       budget_s=500 if t == "quick" else 3300)
    chk.add("histories", r)
    chk.bounds["histories"] = (
        "k=1; k=2 with the first operation from all 49 (25 notebook diffs over 5x5 shapes, 10 merges, 5 generic "
        "diffs, 4+3 configuration calls, reset) and the last from 35 diffs/merges; k=3 with %s"
        % ("two configuration operations then a diff" if t == "quick" else
           "the first two operations from diffs and configuration calls (33 each) and a final diff"))
    chk.outside += ["histories longer than 3", "notebooks other than the one-cell shape-carrying template",
                    "state kept outside the nbdime package (none known)"]
    chk.stubs += ["pristine nbdime = re-import of the package in-process (sys.modules entries dropped)",
                  "isinstance inside nbdime modules -> sx.values.sym_isinstance",
                  "which/random_cell_id as in the merge family"]
    chk.assumptions += ["earlier operations use concrete leaves (they matter through side effects that depend on shapes and paths); the compared operation's leaves are symbolic",
                        "every 5th path is shadow-run concretely (re-import makes paths expensive)"]
    chk.require_goals(["history-with-earlier-diff-or-merge", "history-with-config", "history-with-reset",
                       "shape-change-at-shared-path", "same-objects-diffed-twice",
                       "ids-kept-sources-rewritten-after-ids-were-ignored", "same-long-texts-in-different-roles"])
    return chk.finish()


if __name__ == "__main__":
    sys.exit(main())
