"""C18 -- git integration set-up is idempotent and never touches foreign
settings: NARROW claim (the configuration kernel of the four `config`
commands and `nbdime config-git`).

The real `main()` of git-nbdiffdriver / git-nbmergedriver / git-nbdifftool /
git-nbmergetool and `nbdime config-git` run unmodified.  `git config` is
replaced by a small model of a two-scope key/value store (harness/fam_gitcfg
.GitConfigModel, written from git-config(1)); the attributes files are real
files in scratch directories.  The settings the user already has -- merge.tool
and diff.guitool in the repository and in the global file (each present or
not), the prompt settings, settings of other tools, a section whose name
extends nbdime's -- hold *symbolic strings*: the code can only move them and
compare them with literals, so for every path z3 decides the obligations for
every value those settings can have, the value "nbdime" included.

Per command c of a sequence, from the state reached so far:
  G1  c succeeds, and running c again changes neither the configuration nor
      the attributes file (idempotence);
  G2  only nbdime's own entries are written: the driver / tool entries, the
      two prompt settings, and the default tool with --set-default; every
      other setting of the written scope, and the whole other scope, keeps its
      (symbolic) value;
  G3  the attributes file keeps its content as a prefix and gains at most
      nbdime's own lines; an enabled driver has its line;
  G4  disabling a driver removes its section; disabling a tool removes the
      default-tool setting only if it points at nbdime (for all values of the
      setting: kept when it names another tool).
  G5  (model validation, concrete) the same sequence executed with nothing
      stubbed against the real git binary in a scratch HOME / repository ends
      in the configuration and attributes bytes the model predicts -- on the
      model instance of every explored path (shadow run) and on every replay.

Outside the claim: --system scope (needs write access to /etc); being outside
any repository; multi-valued keys, includes and conditional includes in git
configuration; what git itself does with the entries (routing of *.ipynb to
the drivers is git's attribute machinery; `git check-attr` is not consulted);
sequences longer than the bound.  Non-trivial = the user had a default diff
or merge tool configured somewhere before the sequence started.
"""
import sys

from sx import runner
from . import common, fam_gitcfg

PROP = "C18"


def main():
    common.silence_logging()
    t = common.tier()
    known = common.known_findings(PROP)
    kn = tuple(sorted(known))
    chk = common.Check(PROP, __doc__)
    r = runner.explore("harness.fam_gitcfg", fam_gitcfg.shards(t, (PROP,), kn), nproc=common.nproc(),
                       budget_s=420 if t == "quick" else 3000)
    chk.add("git-config-kernel", r)
    chk.bounds["git-config-kernel"] = (
        "12 commands (4 tools x enable / enable --set-default / disable, config-git enable / disable) x 2 scopes "
        "(repository, --global). One command: 16 presence patterns of merge.tool / diff.guitool (repository x global) "
        "when the command concerns a tool (none / all four otherwise), prompt settings present, 5 attributes-file "
        "variants per written scope when the command writes attributes (absent, unrelated rules with / without final "
        "newline, nbdime's lines already there, *.ipynb routed to another driver; absent / no-final-newline otherwise), "
        "3 locations of the global attributes file (default, XDG_CONFIG_HOME, core.attributesfile). Two commands in one "
        "scope: 144 ordered pairs x 4 presence patterns x 2 attributes variants per written scope" +
        ("" if t == "quick" else "; two commands in mixed scopes and three commands in one scope over the reduced initial space") +
        ". All pre-existing setting VALUES are symbolic strings (may or may not equal 'nbdime').")
    chk.outside += ["--system scope", "running outside a repository", "multi-valued keys and include directives in git configuration",
                    "git's own use of the entries (attribute matching, check-attr)", "longer command sequences"]
    chk.stubs += ["subprocess.check_call / check_output in nbdime.vcs.git.{diffdriver,mergedriver,difftool,mergetool} and nbdime.utils -> "
                  "GitConfigModel (two-scope key/value store from git-config(1)); validated against the real git binary on every shadow run (G5)",
                  "jinja2 / jupyter_server / requests import-only stand-ins (difftool / mergetool import the web tools)"]
    chk.assumptions += ["git config behaves as GitConfigModel for single-valued keys (checked against git %s on each path's model instance)" % _gitver()]
    chk.require_goals(["enable", "disable", "set-default", "config-git", "global-scope", "attributes-already-present"])
    return chk.finish()


def _gitver():
    import subprocess
    try:
        return subprocess.check_output(["git", "--version"]).decode().strip().split()[-1]
    except Exception:  # noqa
        return "?"


if __name__ == "__main__":
    sys.exit(main())
