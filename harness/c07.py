"""C07 -- the default merge never drops or invents source text; real
conflicts are flagged.

Exploration of the default strategy (C03's script product) with the text-merge
back end in {git merge-file, diff3, built-in}.  On every feasible path:

  P1  no fabricated line: every non-blank source line of the merged notebook
      occurs in base, local or remote, or is a conflict marker
      (<<<<<<< / ||||||| / ======= / >>>>>>> lines, CELL DELETED markers,
      marker cells);
  P2  no dropped line: every source line a side added occurs in the merged
      notebook;
  P3  (flag clause, id-aligned cells, both sides rewrite the same line
      differently) some decision is conflicted and both variants occur in the
      merged source.

Sources are pooled strings, so the universally decided part is the
structure / leaf dimension (which cells are deleted, re-run, transient-only);
the text dimension is the pool.  Non-trivial = at least one decision.
"""
import sys

from sx import runner
from . import common, fam_nbmerge as F

PROP = "C07"


def main():
    common.silence_logging()
    t = common.tier()
    known = common.known_findings(PROP)
    kn = tuple(sorted(known))
    chk = common.Check(PROP, __doc__)
    base = F.default_shards(t, (PROP,), kn, tools=("git",))
    sh = list(base)
    only = ("act-", "pair-", "scn-") if t == "thorough" else (
        "act-git-codeA", "act-git-md", "act-git-codeS", "act-git-raw", "pair-", "scn-long", "scn-lines",
        "scn-unicode", "scn-runs-codeA")
    sh += F.with_tool(base, "builtin", only=only)
    sh += F.with_tool(base, "diff3", only=only)
    r = runner.explore("harness.fam_nbmerge", sh, nproc=common.nproc(),
                       budget_s=400 if t == "quick" else 3000)
    chk.add("provenance", r)
    r = runner.explore("harness.fam_nbmerge", F.flag_shards(t, (PROP,), kn), nproc=common.nproc(),
                       budget_s=200 if t == "quick" else 1200)
    chk.add("flag-clause", r)
    if "F13" in known:
        w = runner.explore_inline(F.make_default(
            templates=("codeA",), acts="ACTS_F13", ins=(0, 0), tool="diff3", props=(PROP,), known=()),
            max_violations=1)
        if w.violations:
            chk.known_finding("F13", "text merge via diff3 with a source lacking its final newline: %s" % (
                str(w.violations[0]["info"])[:160]))
    chk.bounds.update(F.BOUNDS[t])
    chk.bounds["flag clause"] = "7 one-cell and 2 two-cell id-aligned bases; both sides rewrite the same line (variants 1/2 of the source family, either order); other cell: {keep, del, src1}^2; 3 back ends"
    chk.outside += F.OUTSIDE
    chk.stubs += F.STUBS
    chk.require_goals(["conflict", "custom-conflict", "same-line-rewritten"])
    chk.assumptions += ["provenance is content based: a duplicated line is not a violation",
                        "open known findings excluded: %s" % ", ".join(kn)]
    F.f16_witness(chk, known)
    return chk.finish()


if __name__ == "__main__":
    sys.exit(main())
