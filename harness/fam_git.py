"""Harness family "git revisions" (C17, narrow claim): the working-directory
kernel and the entry filtering / pairing kernel of nbdime.gitfiles, with the
process cwd modelled over symbolic tokens and GitPython replaced by a
nondeterministic stub.
"""
import io as _io

from sx.values import json_identical, land
from . import common


class FakeOS(object):
    """Two-line model of the process working directory over opaque tokens:
    chdir(p): cwd := cwd if p is os.curdir else p.  Everything else is the
    real os module."""

    def __init__(self, real, cwd):
        self._real = real
        self.cwd = cwd
        self.curdir = real.curdir
        self.trace = []

    def chdir(self, p):
        self.trace.append(p)
        if isinstance(p, str) and p == self._real.curdir:
            return
        self.cwd = p

    def getcwd(self):
        return self.cwd

    def __getattr__(self, name):
        return getattr(self._real, name)


class Boom(Exception):
    pass


def real_pushd_check():
    """Concrete confirmation with real directories (replay only)."""
    import os
    import tempfile
    import shutil
    from nbdime.utils import pushd
    d0, d1 = tempfile.mkdtemp(prefix="vfc17a"), tempfile.mkdtemp(prefix="vfc17b")
    saved = os.getcwd()
    try:
        os.chdir(d0)
        with pushd(d1):
            pass
        return os.path.realpath(os.getcwd()) == os.path.realpath(d0)
    finally:
        os.chdir(saved)
        shutil.rmtree(d0, ignore_errors=True)
        shutil.rmtree(d1, ignore_errors=True)


def make_pushd(props=("C17",), known=()):
    def h(E):
        import os
        import nbdime.utils as nu
        init = E.token("cwd0")
        target = E.token("target")
        fake = FakeOS(os, init)
        saved = nu.os
        nu.os = fake
        body = E.choice("body", 3)       # 0 returns, 1 raises, 2 nested pushd
        try:
            try:
                with nu.pushd(target):
                    inside = fake.cwd
                    if body == 1:
                        raise Boom()
                    if body == 2:
                        t2 = E.token("target2")
                        with nu.pushd(t2):
                            pass
                        E.check("nested-pushd-restores-outer-target", json_identical(fake.cwd, target))
            except Boom:
                pass
        finally:
            nu.os = saved
        E.nontrivial(True)
        E.goal("pushd-body-raises", body == 1)
        E.check("pushd-enters-target", json_identical(inside, target))
        E.check("cwd-restored-after-pushd", json_identical(fake.cwd, init),
                info="chdir calls: %r" % (fake.trace,))
        # the same clause on the real OS (temp directories): the symbolic run
        # records it as holding, the concrete shadow run / replay executes it
        E.check("cwd-restored-with-real-directories", True if E.symbolic else real_pushd_check())
    return h, {}


# ------------------------------------------------------------------ pairing
class FakeBlob(object):
    def __init__(self, text):
        self.text = text

    @property
    def data_stream(self):
        return _io.BytesIO(self.text.encode("utf8"))

    def __eq__(self, other):        # GitPython blobs compare by content hash
        return isinstance(other, FakeBlob) and other.text == self.text

    def __ne__(self, other):
        return not self.__eq__(other)

    def __hash__(self):
        return hash(self.text)


class FakeEntry(object):
    def __init__(self, a_path, a_blob, b_path, b_blob):
        self.a_path, self.a_blob, self.b_path, self.b_blob = a_path, a_blob, b_path, b_blob


KINDS = [("nb", "nb"), ("nb", None), (None, "nb"), ("other", "other"), ("other", None), (None, "other")]


def make_pairing(nentries, props=("C17",), known=()):
    def h(E):
        import os
        import nbdime.gitfiles as gf
        import nbdime.utils as nu
        from nbdime.utils import EXPLICIT_MISSING_FILE as MISSING
        base_kind = E.choice("base", 2)            # 0 commit, 1 index
        remote_kind = E.choice("remote", 3)        # 0 commit, 1 index, 2 working tree
        popped = [(), ("sub",), ("sub", "dir")][E.choice("popped", 3)]
        paths = [None, "nb.ipynb", ["a", "b"]][E.choice("paths", 3)]
        spec = []
        for i in range(nentries):
            ka, kb = KINDS[E.choice("kind%d" % i, len(KINDS))]
            ba = E.choice("ablob%d" % i, 2) if ka else 0
            bb = E.choice("bblob%d" % i, 2) if kb else 0
            ondisk = E.choice("disk%d" % i, 2) if (remote_kind == 2 and kb == "nb") else 1
            # pure rename / mode change: the same blob on both sides
            same = E.choice("same%d" % i, 2) if (ka and kb and ba and bb) else 0
            spec.append((ka, kb, ba, bb, ondisk, same))
        ref_base = gf.GitRefIndex if base_kind == 1 else "BASE"
        ref_remote = [("REMOTE"), gf.GitRefIndex, gf.GitRefWorkingTree][remote_kind]
        seen = {}

        def name(kind, i, side):
            return None if kind is None else ("dir/f%d%s.%s" % (i, side, "ipynb" if kind == "nb" else "py"))
        entries = []
        # the same request a second time in this process, after the refs moved
        # (new commits: same paths, new blob contents)
        again = E.choice("again", 2) if nentries else 0
        gen = [""]

        def fill_entries():
            del entries[:]
            for i, (ka, kb, ba, bb, ondisk, same) in enumerate(spec):
                entries.append(FakeEntry(name(ka, i, "a"), FakeBlob("A%d%s" % (i, gen[0])) if ba else None,
                                         name(kb, i, "b"), FakeBlob((("A%d" if same else "B%d") % i) + gen[0]) if bb else None))
        fill_entries()

        class Tree(object):
            def __init__(self, tag):
                self.tag = tag

            def diff(self, other, paths_):
                seen["diff"] = (self.tag, getattr(other, "tag", other), paths_)
                return list(entries)

        class Commit(object):
            def __init__(self, ref):
                self.tree = Tree("tree:%s" % ref)

        ROOT = "/vroot-c17"

        class Repo(object):
            """Stands in for git.Repo: only the directory ROOT is a repository."""
            working_tree_dir = ROOT
            index = Tree("index")

            def __init__(self, path=None):
                from git import InvalidGitRepositoryError
                if path != ROOT:
                    raise InvalidGitRepositoryError(path)

            def commit(self, ref):
                return Commit(ref)
        init = E.token("cwd0")
        fake = FakeOS(os, init)
        opened = []

        class FakeIO(object):
            StringIO = _io.StringIO

            @staticmethod
            def open(path, *a, **k):
                i = int(path.split("/f")[-1][0])
                if not spec[i][4]:
                    raise IOError("no such file")
                opened.append((path, fake.cwd))
                f = _io.StringIO("DISK%d" % i)
                f.name = path
                return f
        # a git clean filter configured for notebooks (working-tree side only):
        # the REAL apply_possible_filter runs, with git's answers and the
        # filter program stubbed (attribute 'filter=vf', clean command = a
        # program that prefixes its input)
        import nbdime.vcs.git.filter_integration as fi
        with_filter = E.choice("clean-filter", 2) if remote_kind == 2 else 0

        def fi_check_output(cmd, *a, **k):
            if isinstance(cmd, list) and cmd[:2] == ["git", "check-attr"]:
                return ("%s\x00filter\x00vf\x00" % cmd[-1]).encode("utf8")
            if isinstance(cmd, list) and cmd[:2] == ["git", "config"]:
                return b"vf-clean\x00"
            return ("FILTERED:" + k["stdin"].read()).encode("utf8")
        saved = (gf.Repo, gf.apply_possible_filter, gf.io, nu.os, gf.os)
        saved_fi = (fi.check_output, fi.io)
        gf.Repo = Repo            # the real get_repo walks up from the start directory
        if with_filter:
            fi.check_output = fi_check_output
            fi.io = FakeIO
        else:
            gf.apply_possible_filter = lambda p: p
        gf.io = FakeIO
        gf.BlobWrapper.__bases__ = (_io.StringIO,)
        nu.os = fake
        try:
            got = []
            start = os.path.join(ROOT, *popped) if popped else ROOT
            for fa, fb in gf.changed_notebooks(ref_base, ref_remote, paths, repo_dir=start):
                got.append((fa, fb))
            got2 = None
            if again:
                gen[0] = "'"
                fill_entries()
                got2 = []
                for fa, fb in gf.changed_notebooks(ref_base, ref_remote, paths, repo_dir=start):
                    got2.append((fa, fb))
        finally:
            gf.Repo, gf.apply_possible_filter, gf.io, nu.os, gf.os = saved
            fi.check_output, fi.io = saved_fi
        E.goal("clean-filter-and-file-deleted-in-working-tree",
               bool(with_filter) and any(s_[1] == "nb" and not s_[4] for s_ in spec))
        # expectation by construction
        def expectation(suffix):
            want = []
            for i, (ka, kb, ba, bb, ondisk, same) in enumerate(spec):
                if ka == "other" or kb == "other":
                    continue

                def side(kind, blob, is_remote):
                    if kind is None:
                        return "MISSING"
                    if is_remote and remote_kind == 2:
                        return (("FILTERED:" if with_filter else "") + "DISK%d" % i) if ondisk else "MISSING"
                    if not blob:
                        return "MISSING"
                    return (("B%d" if (is_remote and not same) else "A%d") % i) + suffix
                want.append((side(ka, ba, False), side(kb, bb, True)))
            return want
        want = expectation("")

        def norm(x):
            if x == MISSING:
                return "MISSING"
            return x.read() if hasattr(x, "read") else repr(x)
        gotn = [(norm(a), norm(b)) for a, b in got]
        E.nontrivial(len(want) > 0)
        E.goal("pairs-yielded", len(want) > 0)
        E.goal("non-notebook-skipped", any(s[0] == "other" or s[1] == "other" for s in spec))
        E.goal("working-tree", remote_kind == 2)
        E.check("pairs==by-construction-expectation", gotn == want, info="got %r want %r spec %r" % (gotn, want, spec))
        if got2 is not None:
            gotn2 = [(norm(a), norm(b)) for a, b in got2]
            want2 = expectation("'")
            E.goal("second-request-after-refs-moved", len(want2) > 0)
            E.check("second-request-pairs-current-content", gotn2 == want2,
                    info="second request after the refs moved: got %r want %r spec %r" % (gotn2, want2, spec))
        # path filters prefixed by the sub-directory components
        d = seen.get("diff")
        if paths is None:
            wantp = None
        else:
            pl = [paths] if isinstance(paths, str) else list(paths)
            wantp = [os.path.join(*(popped + (p,))) for p in pl] if popped else pl
        E.check("path-filters-prefixed-by-subdirectory",
                d is not None and (list(d[2]) if d[2] is not None else None) == wantp,
                info="diff called with %r, expected paths %r" % (d, wantp))
        exp_other = {0: "tree:REMOTE", 1: gf.GitRefIndex, 2: gf.GitRefWorkingTree}[remote_kind]
        E.check("diff-between-the-requested-refs",
                d is not None and d[0] == ("index" if base_kind == 1 else "tree:BASE") and d[1] == exp_other,
                info=repr(d))
        E.check("cwd-restored-after-iteration", json_identical(fake.cwd, init), info="chdir calls %r" % (fake.trace,))
        E.goal("identical-blobs", any(s_[5] for s_ in spec))
        # entry paths are relative to the repository ROOT, so that is where the
        # working-tree files must be opened from -- also when the caller named a
        # sub-directory of the repository as repo_dir (the oracle used to
        # demand `start`, i.e. it had copied the code's behaviour)
        E.check("working-tree-files-opened-from-the-repository-root", all(c == ROOT for _, c in opened),
                info="repo_dir given %r, repository root %r, files opened (path, cwd): %r" % (start, ROOT, opened))
    return h, {}


def make_gitref(props=("C17",), known=()):
    """is_gitref(candidate): a candidate that exists on disk (file OR
    directory) is a path, never a ref; otherwise it is a ref iff git says so;
    the null file is never a ref.  resolve_diff_args must then route one, two
    or three positional arguments to base / remote / path filters as its
    documentation says: one argument -- a ref is the base, anything else a
    path filter against HEAD; two -- (ref, non-ref) is base + path filter
    (the path may be that of a file deleted since), everything else is left
    alone; three or more -- the leading refs are base / remote, the rest are
    path filters."""
    KINDS = ("absent", "file", "dir", "null")

    def h(E):
        import os
        import tempfile
        import shutil
        import argparse
        import nbdime.gitfiles as gf
        import nbdime.args as nargs
        from nbdime.utils import EXPLICIT_MISSING_FILE
        nargs_n = 1 + E.choice("nargs", 3)
        td = tempfile.mkdtemp(prefix="vfc17r")
        saved = (gf.is_valid_gitref, nargs.is_gitref)
        try:
            cands, isref, valid_names = [], [], set()
            for i in range(min(nargs_n, 2)):
                kind = KINDS[E.choice("kind%d" % i, 4 if i == 0 else 3)]
                valid = bool(E.choice("validref%d" % i, 2))
                cand = os.path.join(td, "name%d" % i)
                if kind == "file":
                    open(cand, "w").close()
                elif kind == "dir":
                    os.mkdir(cand)
                elif kind == "null":
                    cand = EXPLICIT_MISSING_FILE
                if valid:
                    valid_names.add(cand)
                cands.append(cand)
                isref.append(kind == "absent" and valid)
                if i == 0:
                    E.nontrivial(kind in ("file", "dir"))
                    E.goal("existing-directory-that-is-also-a-ref", kind == "dir" and valid)
                if i == 1:
                    E.goal("ref-then-deleted-path", isref[0] and kind == "absent" and not valid)
            gf.is_valid_gitref = lambda ref, path=None: ref in valid_names
            for cand, want in zip(cands, isref):
                got = gf.is_gitref(cand)
                E.check("is_gitref==(not on disk and valid ref)", got == want, info="candidate %r valid %s got %r" % (cand, cand in valid_names, got))
            nargs.is_gitref = gf.is_gitref
            extra = [os.path.join(td, "more.ipynb")] if nargs_n == 3 else None
            a = argparse.Namespace(base=cands[0], remote=cands[1] if nargs_n >= 2 else None, paths=extra)
            base, remote, paths = nargs.resolve_diff_args(a)
            got = (base, remote, paths)
            if nargs_n == 1:
                want = (cands[0], None, None) if isref[0] else ("HEAD", None, cands[0])
                E.check("one-argument-routing", got == want, info="got %r want %r" % (got, want))
            elif nargs_n == 2:
                if isref[0] and not isref[1]:
                    want = (cands[0], None, cands[1])
                else:
                    want = (cands[0], cands[1], None)
                E.check("two-argument-routing", got == want, info="got %r want %r (is ref: %r)" % (got, want, isref))
            else:
                if not isref[0]:
                    # only path filters: the revisions are the defaults, HEAD
                    # against the working tree, exactly as for a single path
                    # (this oracle used to expect base None -- the code's own
                    # answer, which *is* the working-tree sentinel)
                    want = ("HEAD", None, [cands[0], cands[1]] + extra)
                elif not isref[1]:
                    want = (cands[0], None, [cands[1]] + extra)
                else:
                    want = (cands[0], cands[1], extra)
                E.check("three-argument-routing", got == want, info="got %r want %r (is ref: %r)" % (got, want, isref))
        finally:
            gf.is_valid_gitref, nargs.is_gitref = saved
            shutil.rmtree(td, ignore_errors=True)
    return h, {}


def shards(tier, props, known):
    kw = dict(props=tuple(props), known=tuple(known))
    out = [("make_pushd", "pushd", dict(**kw)), ("make_gitref", "gitref", dict(**kw))]
    for n in range(0, 3 if tier == "quick" else 4):
        out.append(("make_pairing", "pairing-%d" % n, dict(nentries=n, **kw)))
    return out
