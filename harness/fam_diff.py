"""Harness family "generic diff/patch": one exploration, obligations selected
by property (C02 round trip, C11 well-formedness, C13 purity).

Documents are built by gen/docs.py: shapes by E.choice, every scalar leaf a
SymScalar (symbolic JSON type tag and value).
"""
import json
import os

from sx.values import (json_identical, unchanged, land, lnot, implies, py_equal, snapshot,
                       has_symbolic)
from gen import docs, pools
from oracles.refpatch import refpatch, RefPatchError
from oracles.wellformed import wellformed
from oracles import schema as schemas
from oracles.alias import shared_containers
from . import common


def known_assumptions(E, a, b, known):
    """Exclude the input classes of recorded (open) findings as solver
    assumptions."""
    if "F1" in known:
        # F1: a scalar of a and a scalar of b are Python-equal but of
        # different JSON type
        la = list(docs.leaves(a))
        lb = list(docs.leaves(b))
        for x in la:
            for y in lb:
                E.assume(implies(py_equal(x, y), json_identical(x, y)))


def roundtrip(E, a, b, props, known, differ=None, patcher=None, alias_known=True):
    import nbdime
    differ = differ or nbdime.diff
    patcher = patcher or nbdime.patch
    c13 = "C13" in props
    if c13:
        sa, sb = snapshot(a), snapshot(b)
    try:
        d = differ(a, b)
    except Exception as ex:  # noqa
        if "C02" in props or "C01" in props:
            E.fail("diff-raised", "%s: %s" % (type(ex).__name__, str(ex)[:200]))
        return None
    E.nontrivial(len(d) > 0)
    E.goal("nonempty-diff", len(d) > 0)
    E.goal("empty-diff", len(d) == 0)
    E.goal("nested-patch", any(e.op == "patch" for e in d))
    E.observe("diff", d)
    if c13:
        E.check("diff-leaves-a-unchanged", unchanged(a, sa))
        E.check("diff-leaves-b-unchanged", unchanged(b, sb))
        sh = shared_containers(d, [("a", a)])
        E.check("diff-shares-no-container-with-a", not sh, info=sh[:3])
        sh = shared_containers(d, [("b", b)])
        if sh and "F11" in known:
            E.known("F11")
        else:
            E.check("diff-shares-no-container-with-b", not sh, info=sh[:3])
        sd = snapshot(d)
    if "C11" in props:
        errs = wellformed(d, a)
        E.check("diff-wellformed", not errs, info=errs[:4])
        inst = E.instance(d)
        errs = schemas.diff_schema_errors(inst)
        E.check("diff-validates-against-schema", not errs, info=errs[:3])
        E.check("diff-survives-json-roundtrip", schemas.json_roundtrip_ok(inst))
    if "C02" in props or "C01" in props:
        try:
            r = refpatch(a, d)
        except RefPatchError as ex:
            E.fail("refpatch-rejects-diff", str(ex))
            return d
        E.check("refpatch(a,diff)==b", json_identical(r, b),
                info="reference patcher result differs from target")
    if "C02" in props or "C01" in props or c13:
        try:
            r2 = patcher(a, d)
        except Exception as ex:  # noqa
            if not c13 or "C02" in props:
                E.fail("patch-raised", "%s: %s" % (type(ex).__name__, str(ex)[:200]))
            return d
        if "C02" in props or "C01" in props:
            E.check("patch(a,diff)==b", json_identical(r2, b),
                    info="nbdime.patch result differs from target")
            if len(d) == 0:
                E.check("empty-diff=>identical", json_identical(a, b),
                        info="diff is empty but documents serialise differently")
        if c13:
            E.check("patch-leaves-a-unchanged", unchanged(a, sa))
            E.check("patch-leaves-diff-unchanged", unchanged(d, sd))
            sh = shared_containers(r2, [("a", a)])
            E.check("patched-shares-no-container-with-a", not sh, info=sh[:3])
            sh = shared_containers(r2, [("diff", d)])
            if sh and "F11" in known:
                E.known("F11")
            else:
                E.check("patched-shares-no-container-with-diff", not sh, info=sh[:3])
    return d


# ------------------------------------------------------------------ factories
def make_lists(n, m, props=("C02",), known=()):
    def h(E):
        a = [E.scalar("a%d" % i) for i in range(n)]
        b = [E.scalar("b%d" % i) for i in range(m)]
        known_assumptions(E, a, b, known)
        roundtrip(E, a, b, props, known)
    return h, dict(reset=common.nbdime_reset)


def make_nested(root, alts, na, nb=None, keys=("a", "b"), props=("C02",), known=()):
    alts = getattr(docs, alts)

    def h(E):
        if root == "L":
            a = docs.pick_list(E, "a", alts, na, n=na)
            b = docs.pick_list(E, "b", alts, nb, n=nb)
        else:
            a = docs.pick_dict(E, "a", alts, keys)
            b = docs.pick_dict(E, "b", alts, keys)
        known_assumptions(E, a, b, known)
        roundtrip(E, a, b, props, known)
    return h, dict(reset=common.nbdime_reset)


def make_strings(lo, hi, pool="TEXT", props=("C02",), known=()):
    """Ordered pairs (i, j) of the text pool with lo <= i < hi: enumeration
    over the pool (no symbolic leaf)."""
    pool = getattr(pools, pool)

    def h(E):
        i = lo + E.choice("i", hi - lo)
        j = E.choice("j", len(pool))
        roundtrip(E, pool[i], pool[j], props, known)
    return h, dict(reset=common.nbdime_reset)


def make_string_elems(n, m, pool="TEXT", props=("C02",), known=()):
    """Lists of pooled strings mixed with one symbolic scalar each."""
    pool = getattr(pools, pool)
    small = [pool[i] for i in (0, 1, 8, 9, 10, 15)]

    def h(E):
        a = [small[E.choice("a%d" % i, len(small))] for i in range(n)] + [E.scalar("ax")]
        b = [small[E.choice("b%d" % i, len(small))] for i in range(m)] + [E.scalar("bx")]
        known_assumptions(E, a, b, known)
        roundtrip(E, a, b, props, known)
    return h, dict(reset=common.nbdime_reset)


SMALL_ALPHABET = [None, True, 1, 1.0, 0, "a"]


def make_concrete(n, m, props=("C02",), known=()):
    """Lists over a small alphabet of *concrete* JSON scalars whose Python
    equality / hashing conflates JSON types (True/1/1.0, False/0/0.0): pure
    enumeration (no symbolic leaf), complementing the symbolic shards for code
    that hashes or otherwise concretises leaves."""
    def h(E):
        a = [SMALL_ALPHABET[E.choice("a%d" % i, len(SMALL_ALPHABET))] for i in range(n)]
        b = [SMALL_ALPHABET[E.choice("b%d" % i, len(SMALL_ALPHABET))] for i in range(m)]
        roundtrip(E, a, b, props, known)
    return h, dict(reset=common.nbdime_reset)


def make_concrete_objects(keys=("a", "b"), props=("C02",), known=()):
    """Objects over a few keys, each absent or holding a *concrete* scalar of
    the small alphabet (null included) on either side: keys gained / lost /
    replaced with values whose identity (`is None`), truthiness or hash the
    code may look at -- operations the symbolic proxies cannot follow (pure
    enumeration, no symbolic leaf)."""
    vals = [None] + list(SMALL_ALPHABET)        # None here = key absent

    def h(E):
        a, b = {}, {}
        for k in keys:
            i = E.choice("a." + k, len(vals) + 1)
            j = E.choice("b." + k, len(vals) + 1)
            if i:
                a[k] = vals[i - 1] if i > 1 else None
            if j:
                b[k] = vals[j - 1] if j > 1 else None
        roundtrip(E, a, b, props, known)
    return h, dict(reset=common.nbdime_reset)


def shards(tier, props, known):
    """The shard list shared by C02 / C11 / C13: (family, key, params)."""
    kw = dict(props=tuple(props), known=tuple(known))
    out = []
    N = 4 if tier == "quick" else 5
    for n in range(N + 1):
        for m in range(N + 1):
            if n + m <= 8:          # 5x4 / 4x5 / 5x5 with symbolic JSON types are out of reach (millions of paths)
                out.append(("make_lists", "lists-%dx%d" % (n, m), dict(n=n, m=m, **kw)))
    if tier == "quick":
        for i in range(3):
            for j in range(3):
                out.append(("make_nested", "nestedL-%dx%d" % (i, j),
                            dict(root="L", alts="ALTS_QUICK", na=i, nb=j, **kw)))
        out.append(("make_nested", "nestedD-ab", dict(root="D", alts="ALTS_QUICK", na=0, **kw)))
    else:
        for i in range(4):
            for j in range(4):
                if i + j <= 4 or (i, j) in ((3, 2), (2, 3)):
                    out.append(("make_nested", "nestedL-%dx%d" % (i, j),
                                dict(root="L", alts="ALTS_QUICK", na=i, nb=j, **kw)))
        for i in range(3):
            for j in range(3):
                out.append(("make_nested", "deepL-%dx%d" % (i, j),
                            dict(root="L", alts="ALTS_DEEP", na=i, nb=j, **kw)))
        out.append(("make_nested", "nestedD-abc",
                    dict(root="D", alts="ALTS_MERGE_S", na=0, keys=("a", "b", "c"), **kw)))
        out.append(("make_nested", "deepD-ab", dict(root="D", alts="ALTS_DEEP", na=0, **kw)))
    M = 2 if tier == "quick" else 3
    for n in range(M + 1):
        for m in range(M + 1):
            out.append(("make_concrete", "alphabet-%dx%d" % (n, m), dict(n=n, m=m, **kw)))
    out.append(("make_concrete_objects", "alphabet-objects", dict(keys=("a", "b") if tier == "quick" else ("a", "b", "c"), **kw)))
    P = len(pools.TEXT)
    step = 4
    for lo in range(0, P, step):
        out.append(("make_strings", "strings-%d" % lo, dict(lo=lo, hi=min(P, lo + step), **kw)))
    for n in range(3):
        for m in range(3):
            out.append(("make_string_elems", "strelems-%dx%d" % (n, m), dict(n=n, m=m, **kw)))
    return out


BOUNDS = {
    "quick": {
        "flat-lists": "all pairs of lists of 0..4 JSON scalars; every leaf symbolic (type tag in {null,bool,int,float} and integral value)",
        "nested-lists": "all pairs of lists of 0..2 elements drawn from docs.ALTS_QUICK (scalar, 2 strings, lists of 0..2 scalars, objects with keys within {a,b}); heterogeneous arrays included",
        "objects": "all pairs of objects with keys within {a,b}, each value absent or drawn from docs.ALTS_QUICK",
        "strings": "all ordered pairs of the %d-string pool gen/pools.TEXT (enumeration over the pool, not symbolic)" % len(pools.TEXT),
        "string-elements": "lists of 0..2 pooled strings (6 pool items) followed by one symbolic scalar, all pairs",
        "small-alphabet": "all pairs of lists of 0..2 (3 thorough) concrete scalars over {null, true, 1, 1.0, 0, 'a'} (enumeration; covers code that hashes leaves); all pairs of objects over keys {a,b} ({a,b,c} thorough), each key absent or holding null or one of those scalars",
    },
    "thorough": {
        "flat-lists": "all pairs of lists of 0..5 JSON scalars with total length <= 8, every leaf symbolic",
        "nested-lists": "pairs of lists of 0..3 elements from docs.ALTS_QUICK with total length <= 5; pairs of lists of 0..2 elements from docs.ALTS_DEEP (adds depth-3 shapes)",
        "objects": "objects with keys within {a,b,c} over {scalar, [x], {a}}; keys within {a,b} over ALTS_DEEP",
        "strings": "all ordered pairs of the %d-string pool gen/pools.TEXT (enumeration)" % len(pools.TEXT),
        "string-elements": "as quick",
    },
}

OUTSIDE = [
    "documents larger / deeper than the stated shapes",
    "string contents outside gen/pools.TEXT (string content is never symbolic)",
    "non-integral floats and integers as symbolic leaves are modelled by integral values with a float tag (2.0 vs 2)",
    "object keys outside {a,b,c}",
]
