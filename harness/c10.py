"""C10 -- use-base / use-local / use-remote equal resolving every open
conflict to that side.

For s in {use-base, use-local, use-remote}, transients ignored or not, on every
feasible path of the real merge:

  U1  merge_notebooks(..., merge_strategy=s) leaves no conflicted decision;
  U2  its result is json_identical to: decide_notebook_merge(...,
      'mergetool') with every conflicted decision relabelled to that side,
      applied by the reference applier (oracles/refapply.py);
  U3  the result contains no non-blank source line that is absent from all
      three inputs (conflict markers are not excused here).

Input / output strategy variants: s given as --input-strategy (scripts that
keep cells similar, so conflicts stay inside sources) resp. --output-strategy
(scripts that touch nothing but the outputs list), merge strategy left at its
default.  Non-trivial = the mergetool run had an open conflict.
"""
import sys

from sx import runner
from . import common, fam_nbmerge as F

PROP = "C10"


def main():
    common.silence_logging()
    t = common.tier()
    known = common.known_findings(PROP)
    kn = tuple(sorted(known))
    chk = common.Check(PROP, __doc__)
    r = runner.explore("harness.fam_nbmerge", F.use_shards(t, (PROP,), kn), nproc=common.nproc(),
                       budget_s=400 if t == "quick" else 3000)
    chk.add("use-strategies", r)
    if "F24" in known:
        w = runner.explore_inline(F.make_use(templates=("codeL",), mode="merge", acts="ACTS_F24", ids=(0,),
                                             props=(PROP,), known=()), max_violations=1)
        if w.violations:
            chk.known_finding("F24", "use-* strategy, one side appends a line, the other drops the final newline: "
                              "merged source contains the glued line %s" % str(w.violations[0]["info"])[:80])
    chk.bounds["use-strategies"] = (
        "one-cell bases (4 templates quick / 14 thorough) x local x remote actions (8 quick / 17 thorough) and "
        "insertion combinations, two-cell base(s); x {use-base, use-local, use-remote} x transients on/off x ids on/off; "
        "input-strategy variant on 2 (4) templates with 5 similar source edits per side; output-strategy variant on "
        "2 (4) templates with 5 output-only actions per side")
    chk.outside += F.OUTSIDE
    chk.stubs += F.STUBS
    chk.require_goals(["open-conflict-resolved"])
    F.f16_witness(chk, known)
    return chk.finish()


if __name__ == "__main__":
    sys.exit(main())
