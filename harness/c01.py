"""C01 -- notebook diff followed by patch reproduces the target notebook.

A = base notebook built from the cell templates of gen/notebooks.py, B = A
after an edit script (one action per base cell: delete, edit source, re-run,
edit / add / clear outputs, edit / add / delete metadata, change id,
duplicate, attachment add / delete / edit / rename ...; optional inserted
cell; notebook-level metadata / minor change), or two unrelated skeletons.
Symbolic leaves: every execution_count (null|int), every metadata value (any
JSON scalar type), numbers inside application/json payloads, nbformat_minor.

On every feasible path of the real diff_notebooks / patch z3 decides:

  O0  diff_notebooks(A, B) does not raise
  O1  json_identical(refpatch(A, d), B)      reference patcher (docs/diffing.rst)
  O2  json_identical(nbdime.patch(A, d), B)
  O3  d == [] => json_identical(A, B)
  O4  file interface (model instance of the path): nbdiff --out then
      nbpatch -o, run in-process through their real main(), rebuild B
      (witnessed per path class, not universally decided: json and file I/O
      are C boundaries).

Generated inputs are validated against nbformat's schema (an invalid
generated notebook is a harness error).  Non-trivial = non-empty diff.
"""
import sys

from sx import runner
from . import common, fam_nbdiff

PROP = "C01"


def main():
    common.silence_logging()
    t = common.tier()
    known = common.known_findings(PROP)
    kn = tuple(sorted(known))
    chk = common.Check(PROP, __doc__)
    r = runner.explore("harness.fam_nbdiff", fam_nbdiff.shards(t, (PROP,), kn),
                       nproc=common.nproc(), budget_s=800 if t == "quick" else 4800)
    chk.add("notebook-diff-patch", r)
    chk.bounds.update(fam_nbdiff.BOUNDS[t])
    chk.outside += fam_nbdiff.OUTSIDE
    chk.require_goals(["nonempty-diff", "empty-diff", "nested-patch"])
    chk.stubs += ["isinstance inside nbdime modules -> sx.values.sym_isinstance (identical on ordinary objects)",
                  "equal_json_values explored as one summarised decision (summary computed from the real function)",
                  "nbdime module-level differ tables restored to import-time state between paths"]
    chk.assumptions += ["the file-interface clause judges one model instance per path class",
                        "open known findings excluded: %s" % ", ".join(kn)]
    return chk.finish()


if __name__ == "__main__":
    sys.exit(main())
