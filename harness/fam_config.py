"""Harness family "option resolution" (C19).

Environment stubs: jupyter_config_path() -> two directories, os.getcwd() inside
nbdime.config -> a third, JSONFileConfigLoader -> an in-memory loader that
returns, per directory, the sections chosen for this path (raising
ConfigFileNotFound for a directory that sets nothing).  build_config,
_load_config_files, recursive_update, ConfigBackedParser.parse_known_args and
each entry point's real argument parser run unmodified.

Which (directory, section) slots set the option is chosen by E.choice (at most
`maxslots` per run); each slot's value is a distinct fresh symbolic integer
that nbdime only moves around, so the obligation "the resolved value IS the
value of slot s" is decided by z3 for all values.
"""
import itertools
import os
import sys

from sx.values import json_identical, land, describe
from oracles import configmodel as M
from . import common

STUBS = os.path.join(common.VERIF, "stubs")

# option -> entry points it applies to ('*' all)
OPTIONS = {
    "details": ["nbdiff", "nbdiff-web", "nbmerge", "nbmerge-web", "nbshow", "extension",
                "git-nbdiffdriver", "git-nbdifftool", "git-nbmergedriver", "git-nbmergetool"],
    "port": ["nbdiff-web", "nbmerge-web", "server", "git-nbdifftool", "git-nbmergetool"],
    "merge_strategy": ["nbmerge", "nbmerge-web", "git-nbmergedriver", "git-nbmergetool"],
    "color_words": ["nbdiff", "nbdiff-web", "nbmerge", "extension", "git-nbdiffdriver"],
    "log_level": list(M.SECTIONS_OF),
}


def install(files, cwd_listed=False):
    """cwd_listed: the working directory is itself one of the directories
    jupyter lists (e.g. running from ~/.jupyter): it then occurs twice in the
    search path and must still win."""
    import nbdime.config as nc
    from traitlets.config.loader import ConfigFileNotFound

    class Loader(object):
        def __init__(self, filename, path=None, **kw):
            self.path = path

        def load_config(self):
            d = files.get(self.path)
            if not d:
                raise ConfigFileNotFound("no nbdime_config.json in %s" % self.path)
            return {k: dict(v) for k, v in d.items()}

    class FakeOS(object):
        def __getattr__(self, name):
            return getattr(os, name)

        @staticmethod
        def getcwd():
            return "CWD"
    saved = (nc.JSONFileConfigLoader, nc.jupyter_config_path, nc.os)
    nc.JSONFileConfigLoader = Loader
    nc.jupyter_config_path = (lambda: ["USER", "CWD", "SYS"]) if cwd_listed else (lambda: ["USER", "SYS"])
    nc.os = FakeOS()
    return saved


def uninstall(saved):
    import nbdime.config as nc
    nc.JSONFileConfigLoader, nc.jupyter_config_path, nc.os = saved


def slots_for(ep, option, foreign=True):
    """(directory, section) slots in which `option` may be set for entry point
    ep: the sections ep inherits that are documented to carry the option, plus
    one section ep does NOT inherit (its value must never leak)."""
    secs = [s for s in M.SECTIONS_OF[ep] if M.supports(s, option)]
    if foreign:
        secs += [s for s in ("Merge", "Diff", "Web", "NbShow") if s not in M.SECTIONS_OF[ep]
                 and M.supports(s, option)][:1]
    return [(d, s) for s in secs for d in M.DIRS]


def defaults_of(ep):
    import nbdime.config as nc
    saved = install({})
    try:
        return nc.build_config(ep, True)
    finally:
        uninstall(saved)


def make_resolution(ep, option, maxslots=3, props=("C19",), known=()):
    def h(E):
        import nbdime.config as nc
        slots = slots_for(ep, option)
        combos = [c for k in range(0, maxslots + 1) for c in itertools.combinations(range(len(slots)), k)]
        chosen = combos[E.choice("slots", len(combos))]
        files = {}
        for i in chosen:
            d, s = slots[i]
            files.setdefault(d, {}).setdefault(s, {})[option] = E.int("v_%s_%s" % (d, s))
        dflt = defaults_of(ep).get(option, M.MISSING)
        cwd_listed = bool(E.choice("cwd-listed", 2))
        E.goal("cwd-also-a-jupyter-dir", cwd_listed and any(slots[i][0] == "CWD" for i in chosen))
        saved = install(files, cwd_listed)
        try:
            got = nc.build_config(ep)
        except Exception as ex:  # noqa
            E.fail("build_config-raised", "%s: %s" % (type(ex).__name__, str(ex)[:200]))
            return
        finally:
            uninstall(saved)
        want = M.effective(ep, files, option, default=dflt)
        E.nontrivial(len(chosen) >= 2)
        E.goal("several-slots", len(chosen) >= 2)
        E.goal("global-section-set", any(slots[i][1] == "Global" for i in chosen))
        E.goal("foreign-section-set", any(slots[i][1] not in M.SECTIONS_OF[ep] for i in chosen))
        info = "entry point %s option %s set in %r: got %r, documented rule gives %r" % (
            ep, option, [slots[i] for i in chosen], describe(got.get(option, "<absent>")),
            describe(want) if want is not M.MISSING else "<default absent>")
        if want is M.MISSING or want is None:
            E.check("option-resolves-to-default", option not in got or got[option] is None or
                    json_identical(got[option], dflt) is True, info=info)
        else:
            E.check("option-present", option in got, info=info)
            if option in got:
                E.check("option-resolves-per-documented-rule", json_identical(got[option], want), info=info)
    return h, {}


def make_ignore_merge(ep, maxslots=3, props=("C19",), known=()):
    PATHS = ("/a", "/b")

    def h(E):
        import nbdime.config as nc
        slots = slots_for(ep, "Ignore", foreign=False)
        cells = [(i, p) for i in range(len(slots)) for p in PATHS]
        combos = [c for k in range(0, maxslots + 1) for c in itertools.combinations(range(len(cells)), k)]
        chosen = combos[E.choice("cells", len(combos))]
        files = {}
        for ci in chosen:
            i, p = cells[ci]
            d, s = slots[i]
            files.setdefault(d, {}).setdefault(s, {}).setdefault("Ignore", {})[p] = E.int("v_%s_%s_%s" % (d, s, p[1:]))
        # one (directory, section) slot may carry an EMPTY 'Ignore' mapping
        # (a user who cleared their list): it contributes nothing and must
        # not wipe what other files / sections configure
        es = E.choice("empty-ignore-slot", len(slots) + 1)
        if es < len(slots):
            d, s = slots[es]
            files.setdefault(d, {}).setdefault(s, {}).setdefault("Ignore", {})
            E.goal("empty-ignore-mapping-next-to-configured-paths",
                   files[d][s]["Ignore"] == {} and len(chosen) >= 1)
        # process history: an earlier build_config of this process saw OTHER
        # configuration files (another working directory) that set Ignore
        # paths in every section of this entry point; nothing of that may
        # survive into the call under test
        if E.choice("earlier-build-with-other-files", 2):
            other = {}
            for d, sct in slots:
                other.setdefault(d, {}).setdefault(sct, {}).setdefault("Ignore", {})["/earlier"] = 99
            sv = install(other)
            try:
                nc.build_config(ep)
            except Exception as ex:  # noqa
                E.fail("build_config-raised", "earlier call: %s: %s" % (type(ex).__name__, str(ex)[:200]))
                return
            finally:
                uninstall(sv)
            E.goal("second-build_config-of-the-process")
        saved = install(files)
        try:
            got = nc.build_config(ep)
        except Exception as ex:  # noqa
            E.fail("build_config-raised", "%s: %s" % (type(ex).__name__, str(ex)[:200]))
            return
        finally:
            uninstall(saved)
        want = M.effective_ignore(ep, files)
        E.nontrivial(len(chosen) >= 2)
        E.goal("ignore-several-sections", len(set(slots[cells[c][0]][1] for c in chosen)) >= 2)
        g = got.get("Ignore", {}) or {}
        info = "entry point %s Ignore set in %r: got %r, documented rule gives %r" % (
            ep, [(slots[cells[c][0]], cells[c][1]) for c in chosen], describe(g), describe(want))
        E.check("ignore-merged-path-by-path", json_identical(dict(g), want), info=info)
    return h, {}


PARSERS = {
    "nbdiff": ("nbdime.nbdiffapp", "_build_arg_parser", ["a.ipynb", "b.ipynb"]),
    "nbmerge": ("nbdime.nbmergeapp", "_build_arg_parser", ["b.ipynb", "l.ipynb", "r.ipynb"]),
    "nbshow": ("nbdime.nbshowapp", "_build_arg_parser", ["a.ipynb"]),
    "nbdiff-web": ("nbdime.webapp.nbdiffweb", "build_arg_parser", ["a.ipynb", "b.ipynb"]),
    "nbmerge-web": ("nbdime.webapp.nbmergeweb", "build_arg_parser", ["b.ipynb", "l.ipynb", "r.ipynb"]),
}
FLAGS = {"details": (["-D"], False), "port": (["--port", "4321"], 4321),
         "merge_strategy": (["--merge-strategy", "use-local"], "use-local"),
         "color_words": (["--color-words"], True), "log_level": (["--log-level", "ERROR"], "ERROR")}
# flags given explicitly with the value that is also the built-in default
FLAGS_DEFAULT = {"port": (["--port", "0"], 0), "merge_strategy": (["--merge-strategy", "inline"], "inline"),
                 "log_level": (["--log-level", "INFO"], "INFO")}


def make_parser(ep, option, maxslots=2, props=("C19",), known=()):
    """Flag > configuration > default through the real argument parser."""
    def h(E):
        import importlib
        if STUBS not in sys.path:
            sys.path.append(STUBS)
        modname, fname, positional = PARSERS[ep]
        mod = importlib.import_module(modname)
        slots = slots_for(ep, option, foreign=False)
        combos = [c for k in range(0, maxslots + 1) for c in itertools.combinations(range(len(slots)), k)]
        chosen = combos[E.choice("slots", len(combos))]
        with_flag = E.choice("flag", 3 if option in FLAGS_DEFAULT else 2)
        flagspec = FLAGS_DEFAULT[option] if with_flag == 2 else FLAGS[option]
        files = {}
        for i in chosen:
            d, s = slots[i]
            files.setdefault(d, {}).setdefault(s, {})[option] = E.int("v_%s_%s" % (d, s))
        dflt = defaults_of(ep).get(option, M.MISSING)
        argv = (flagspec[0] if with_flag else []) + positional
        saved = install(files)
        import logging
        lvl = logging.getLogger().level
        try:
            parser = getattr(mod, fname)()
            parser.prog = ep
            if with_flag and flagspec[0][0] not in parser._option_string_actions:
                E.goal("entry-point-has-no-such-flag")
                return
            ns, _ = parser.parse_known_args(argv)
        except SystemExit as ex:
            E.fail("parser-exited", "argv %r exit %r" % (argv, ex.code))
            return
        except Exception as ex:  # noqa
            E.fail("parser-raised", "%s: %s" % (type(ex).__name__, str(ex)[:200]))
            return
        finally:
            uninstall(saved)
            logging.disable(logging.CRITICAL)
        got = getattr(ns, option, M.MISSING)
        want = M.effective(ep, files, option, default=dflt,
                           flag=flagspec[1] if with_flag else M.MISSING)
        E.nontrivial(with_flag >= 1 and len(chosen) > 0)
        E.goal("flag-over-config", with_flag == 1 and len(chosen) > 0)
        E.goal("default-valued-flag-over-config", with_flag == 2 and len(chosen) > 0)
        info = "entry point %s option %s flag %r config %r: parsed %r, documented rule gives %r" % (
            ep, option, bool(with_flag), [slots[i] for i in chosen], describe(got), describe(want))
        if want is M.MISSING or want is None:
            E.check("parsed-default", got is None or got is M.MISSING or got == dflt or
                    (option == "log_level" and got == "INFO"), info=info)
        else:
            E.check("parsed-value-per-documented-rule", json_identical(got, want), info=info)
    return h, {}


def shards(tier, props, known):
    kw = dict(props=tuple(props), known=tuple(known))
    out = []
    ms = 3 if tier == "quick" else 4
    for option, eps in OPTIONS.items():
        for ep in eps:
            out.append(("make_resolution", "res-%s-%s" % (ep, option), dict(ep=ep, option=option, maxslots=ms, **kw)))
    for ep in M.SECTIONS_OF:
        if ep != "server":
            out.append(("make_ignore_merge", "ign-%s" % ep, dict(ep=ep, maxslots=3 if tier == "quick" else 4, **kw)))
    for ep in PARSERS:
        for option in OPTIONS:
            if ep in OPTIONS[option]:
                out.append(("make_parser", "parse-%s-%s" % (ep, option), dict(ep=ep, option=option, **kw)))
    return out
