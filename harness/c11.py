"""C11 -- every produced diff is well-formed for its base document and the
published diff schema.

On every feasible path of the generic diff exploration (same input space as
C02: shapes by E.choice, every scalar leaf symbolic), of the notebook diff
exploration (C01 space) and of the merge exploration (C09 space: local /
remote / custom / similar_insert diffs inside decisions, relative to the
sub-document at common_path):

  W1  wellformed(d, base) == []      strict structural validator written from
      the property statement: list ops ordered by position, addrange before
      removerange/patch at one key, at most one addrange per key, no overlap,
      within bounds, lengths >= 1, non-empty valuelists; each object key at
      most once, add -> absent key, remove/replace/patch -> present key;
      patches only into containers and never empty; strings are sequences of
      splitlines(True) lines whose patches are character-level.
  W2  the path's model instance of d validates against diff_format.schema.json
  W3  and survives json.dumps/json.loads unchanged (types included).

Unit harnesses over arbitrary valid pre-states (not only states the differ
reaches): diff_from_lcs(A, B, Ai, Bi) for arbitrary strictly increasing
in-range index lists with A[Ai[k]] == B[Bi[k]] assumed -- output well-formed
and patches A to B; SequenceDiffBuilder.append for an arbitrary well-ordered
builder state and an arbitrary next entry keeps the ordering invariant
(one inductive step).  Non-trivial = non-empty diff.
"""
import sys

from sx import runner
from . import common, fam_diff, fam_units

PROP = "C11"


def main():
    common.silence_logging()
    t = common.tier()
    known = common.known_findings(PROP)
    chk = common.Check(PROP, __doc__)
    kn = tuple(sorted(known))
    r = runner.explore("harness.fam_diff", fam_diff.shards(t, (PROP,), kn),
                       nproc=common.nproc(), budget_s=420 if t == "quick" else 3000)
    chk.add("generic-diffs", r)
    r = runner.explore("harness.fam_units", fam_units.shards(t, (PROP,), kn),
                       nproc=common.nproc(), budget_s=300 if t == "quick" else 1500)
    chk.add("unit-prestate", r)
    from . import fam_nbdiff, fam_nbmerge, fam_merge
    r = runner.explore("harness.fam_nbdiff", fam_nbdiff.shards("quick", (PROP,), kn, files=0, lite=(t == "quick")),
                       nproc=common.nproc(), budget_s=400 if t == "quick" else 3000)
    chk.add("notebook-diffs", r)
    base = fam_nbmerge.default_shards("quick", (PROP,), kn, tools=("git",))
    sh = base + fam_nbmerge.with_strat([s for s in base if s[1].startswith("act-")],
                                       ("mergetool", None, None, True), "-mergetool")
    st = fam_nbmerge.strategy_shards("quick", (PROP,), kn, tools=("git",))
    sh += st
    r = runner.explore("harness.fam_nbmerge", sh, nproc=common.nproc(),
                       budget_s=400 if t == "quick" else 3000)
    chk.add("diffs-inside-notebook-decisions", r)
    r = runner.explore("harness.fam_merge", fam_merge.triple_shards(t, (PROP,), kn),
                       nproc=common.nproc(), budget_s=300 if t == "quick" else 2400)
    chk.add("diffs-inside-generic-decisions", r)
    chk.bounds.update(fam_nbdiff.BOUNDS[t])
    chk.bounds.update(fam_nbmerge.BOUNDS[t])
    chk.bounds.update(fam_diff.BOUNDS[t])
    chk.bounds.update(fam_units.BOUNDS[t])
    chk.outside += fam_diff.OUTSIDE
    chk.require_goals(["nonempty-diff", "nested-patch", "lcs-nonempty", "append-mid"])
    chk.assumptions += [
        "schema validation and the JSON round trip judge the model instance of each path "
        "(the diff schema does not constrain value types, so the verdict does not depend on the model)",
        "open known findings excluded as input assumptions: %s" % ", ".join(kn),
    ]
    if True:
        from . import xh_cross
        xh_cross.run(chk, ["lcs_prestate"], PROP)
        chk.assumptions.append("CrossHair (E1) conditions are a cross-check by a second engine on List[int] inputs with symbolic "
                               "lengths <= 3; only 'Confirmed over all paths' counts as agreement; its timeouts do not affect the verdict")
    fam_nbmerge.f16_witness(chk, known)
    return chk.finish()


if __name__ == "__main__":
    sys.exit(main())
