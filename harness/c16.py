"""C16 -- terminal rendering of notebooks, diffs and decisions never fails.

The real pretty_print_notebook, pretty_print_notebook_diff and
pretty_print_merge_decisions are executed symbolically on generated notebooks,
their diffs (diff_notebooks of edit-script pairs) and merge decisions
(decide_notebook_merge of the 40 conflict scripts under inline / mergetool /
use-local), writing to a StringIO, under: the 64 include-flag subsets, colour
on/off, --color-words on/off and the text renderer in {git diff, diff,
built-in difflib} (selected by stubbing `which` in nbdime.prettyprint; the
real subprocesses run).  Symbolic leaves: execution counts (and metadata /
JSON numbers in some shards); `if execution_count and ...` style truthiness
tests fork.

On every feasible path:  R1 no exception;  R2 an empty diff prints nothing;
R3 a diff with a leaf entry none of whose categories is ignored prints
something beyond the header;  R4 with colour disabled the output contains no
ESC character.

Whitelisted concretisation (this check only): formatting a symbolic leaf
(%s / %d / pprint) yields the text of its current model value; the property
does not depend on the digits and the shadow run re-checks each path
concretely.  Non-trivial = non-empty diff / at least one decision.
"""
import sys

from sx import runner
from . import common, fam_render

PROP = "C16"


def main():
    common.silence_logging()
    t = common.tier()
    known = common.known_findings(PROP)
    kn = tuple(sorted(known))
    chk = common.Check(PROP, __doc__)
    r = runner.explore("harness.fam_render", fam_render.shards(t, (PROP,), kn), nproc=common.nproc(),
                       budget_s=500 if t == "quick" else 3300)
    chk.add("rendering", r)
    if "F12" in known:
        w = runner.explore_inline(fam_render.make_render_diff(
            templates=("codeP",), renderer="git", lo=63, hi=64, colors=(1,), words=(1,),
            actions="ACTIONS_F12", sym=(), props=(PROP,), known=()), max_violations=1)
        if w.violations:
            chk.known_finding("F12", "git --color-words rendering of a text with three '\\ No newline at end of file' lines: %s"
                              % str(w.violations[0]["info"])[:140])
    chk.bounds["rendering"] = (
        "flags: 64 include subsets x colour x color-words x 9 actions x ids on 3 (renderer, template) combinations "
        "(18 thorough); actions: every applicable action on 6 (14) templates under 4 (renderer, include) configurations; "
        "a two-cell base and a JSON-payload base with insertions and notebook-level changes; pathological text "
        "(marker-looking lines, tool-message-looking lines, non-ASCII) under the 3 renderers; decisions of 40 conflict "
        "scripts x 3 strategies x 16 (64) include subsets x colour")
    chk.outside += ["notebooks larger than two cells", "text outside the pools", "terminal encodings (output is a StringIO)"]
    chk.stubs += ["nbdime.prettyprint.which -> renderer selector (real git / diff subprocesses run; git+colorui additionally sets color.ui=always through GIT_CONFIG_* environment variables)",
                  "symbolic leaves render as the text of their model value (whitelisted concretisation)",
                  "isinstance inside nbdime modules -> sx.values.sym_isinstance"]
    chk.require_goals(["empty-diff", "nonempty-diff", "visible-entry", "decisions-rendered"])
    return chk.finish()


if __name__ == "__main__":
    sys.exit(main())
