"""Harness family "notebook diff / patch" (C01; C11, C13 and C16 ride on it).

A = base notebook built from cell templates, B = A after an edit script
(one action per base cell, optional insertion per gap, notebook-level action),
or two unrelated skeletons.  Symbolic leaves: execution counts, metadata
values (any JSON scalar type), numbers inside application/json payloads,
nbformat_minor (0..4 without ids; 5 with ids).
"""
import io
import json
import os
import shutil
import tempfile

from sx.values import json_identical, land, lnot, implies, py_equal, snapshot
from gen import notebooks as G
from gen import docs
from . import common, fam_diff

ACTIONS_QUICK = ["keep", "del", "src1", "src3", "src4", "src6", "rerun", "ec", "out_edit",
                 "out_clear", "out_add", "md_edit", "md_add", "md_del", "id", "dup",
                 "att_add", "att_del", "att_edit", "att_rename"]
ACTIONS_FULL = sorted(set(G.CODE_ACTIONS + G.MD_ACTIONS), key=lambda a: (G.CODE_ACTIONS + G.MD_ACTIONS).index(a))
ACTIONS_PAIR = ["keep", "del", "src1", "src6", "rerun", "out_edit", "md_edit", "dup", "att_edit"]
ACTIONS_F12 = ["src1"]
ACTIONS_RENDER = ["keep", "src1", "src4", "rerun", "out_edit", "md_edit", "id", "att_edit", "del", "md_empty_add",
                  "md_empty_set"]
INSERTS = [None, "N1", "N2", "Nm"]


def _applicable(action, tmpl):
    t = G.TEMPLATES[tmpl]
    if action.startswith("att_"):
        return t["type"] == "markdown"
    if action in ("tag_front", "tag_back"):
        return bool(t.get("tags"))
    if action in ("att_edit_1", "md_edit_2024", "md_edit_note"):
        return bool(t.get("intkeys"))
    if action == "unstale_edit":
        return bool(t.get("stale")) or t.get("att") == "stale"
    if action in ("nums_add", "nums_append", "nums_replace"):
        return bool(t.get("nums"))
    if action == "md_src":
        return bool(t.get("md")) or bool(t.get("collapsed"))
    if action == "collapsed_src":
        return t["type"] == "code"
    if action in ("md_scrolled_true", "md_scrolled_auto"):
        return bool(t.get("scrolled"))
    if action == "md_del_collapsed":
        return bool(t.get("collapsed"))
    if action == "md_shift":
        return bool(t.get("lol"))
    if action in ("src8", "src9"):
        return len(G.SRC.get(t.get("src"), [])) > 9
    if action in ("src10", "src11", "src12", "src13"):
        return len(G.SRC.get(t.get("src"), [])) > 13
    if action in ("src14", "src15"):
        return len(G.SRC.get(t.get("src"), [])) > 15
    if action in ("out_ec",):
        return t["type"] == "code" and bool(t.get("outputs")) and t["outputs"][-1].startswith("result")
    if action in ("out_edit_ec", "out_edit2_ec"):
        return t["type"] == "code" and len(t.get("outputs", ())) > 1 and t["outputs"][-1].startswith("result")
    if action in ("rerun", "ec", "out_edit", "out_edit2", "out_clear", "out_add", "out_add2", "out_del",
                  "out_ptr", "to_md", "out_add_front", "out_del_last", "rerun2", "out_edit_add",
                  "out_edit2_add2", "out_edit_md", "edit_rerun"):
        if t["type"] != "code":
            return False
        if action in ("out_edit", "out_edit2", "out_del", "out_ptr", "out_del_last", "out_edit_add",
                      "out_edit2_add2", "out_edit_md") and not t.get("outputs"):
            return False
    if action == "md_collapsed":
        return t["type"] == "code"
    if action in ("md_del", "md_edit"):
        return bool(t.get("md")) or bool(t.get("collapsed"))
    return True


def actions_for(tmpl, actions):
    return [a for a in actions if _applicable(a, tmpl)]


def file_roundtrip(E, a, b):
    """The file-interface clause on the path's model instance: nbdiff --out
    then nbpatch -o must rebuild B."""
    import nbformat
    from nbdime import nbdiffapp, nbpatchapp
    ia, ib = E.instance(a), E.instance(b)
    td = tempfile.mkdtemp(prefix="vfc01")
    try:
        fa, fb = os.path.join(td, "a.ipynb"), os.path.join(td, "b.ipynb")
        fd, fo = os.path.join(td, "d.json"), os.path.join(td, "o.ipynb")
        with io.open(fa, "w", encoding="utf8") as f:
            json.dump(ia, f)
        with io.open(fb, "w", encoding="utf8") as f:
            json.dump(ib, f)
        out = io.StringIO()
        import contextlib
        with contextlib.redirect_stdout(out):
            rc1 = nbdiffapp.main([fa, fb, "--out", fd])
            rc2 = nbpatchapp.main([fa, fd, "-o", fo]) if rc1 == 0 else None
        if rc1 != 0 or rc2 != 0:
            return "exit status diff=%r patch=%r" % (rc1, rc2)
        with io.open(fo, encoding="utf8") as f:
            got = nbformat.reads(f.read(), as_version=4)
        want = nbformat.reads(json.dumps(ib), as_version=4)
        from sx.values import strict_equal
        if not strict_equal(json.loads(json.dumps(got)), json.loads(json.dumps(want))):
            return "notebook rebuilt through files differs from B"
        return None
    finally:
        shutil.rmtree(td, ignore_errors=True)


_valid_cache = {}


def assert_valid_inputs(E, *nbs):
    """Generated inputs must be schema-valid notebooks; anything else is a
    harness error (inconclusive), never a finding.  Validity depends on the
    structure only, so the verdict is cached per choice vector."""
    from sx.engine import EngineError
    from oracles.schema import nb_schema_errors
    key = tuple(E.choices) if E.symbolic else None
    if key is not None and key in _valid_cache:
        return
    for nb in nbs:
        errs = nb_schema_errors(E.instance(nb))
        if errs:
            raise EngineError("generator produced an invalid notebook: %s" % errs[:3])
        ids = [c.get("id") for c in nb.get("cells", []) if "id" in c]
        if len(ids) != len(set(ids)):
            raise EngineError("generator produced duplicate cell ids: %r" % ids)
    if key is not None:
        if len(_valid_cache) > 200000:
            _valid_cache.clear()
        _valid_cache[key] = True


def nb_roundtrip(E, a, b, props, known, files=False):
    assert_valid_inputs(E, a, b)
    from nbdime.diffing.notebooks import diff_notebooks
    import nbdime
    d = fam_diff.roundtrip(E, a, b, props, known, differ=diff_notebooks, patcher=nbdime.patch)
    if d is not None and files and "C01" in props:
        err = file_roundtrip(E, a, b)
        E.check("file-interface-rebuilds-B", err is None, info=err)
    return d


def make_related(templates, actions="ACTIONS_QUICK", inserts=1, nbacts=("keep",), ids=(0, 1),
                 files=0, props=("C01",), known=(), sym=("ec", "md", "json", "minor")):
    acts = globals()[actions]

    def h(E):
        with_ids = ids[E.choice("ids", len(ids))] if len(ids) > 1 else ids[0]
        ctx = G.Ctx(E, bool(with_ids), sym=sym)
        base = G.base_notebook(ctx, templates)
        script = []
        for i, t in enumerate(templates):
            al = actions_for(t, acts)
            if not with_ids:
                al = [x for x in al if x != "id"]
            script.append(al[E.choice("act%d" % i, len(al))])
        ins = {}
        nins = 0
        for g in range(len(templates) + 1):
            if nins < inserts:
                k = E.choice("ins%d" % g, len(INSERTS))
                if k:
                    ins[g] = INSERTS[k]
                    nins += 1
        nba = nbacts[E.choice("nbact", len(nbacts))] if len(nbacts) > 1 else nbacts[0]
        B = G.derive(ctx, base, "l", script, ins, nba)
        a, b = G.finalize(base), G.finalize(B)
        fam_diff.known_assumptions(E, a, b, known)
        do_files = files == 1 or (files > 1 and (sum(E.choices) % files == 0))
        nb_roundtrip(E, a, b, props, known, files=do_files)
    return h, dict(reset=common.nbdime_reset)


def make_unrelated(ta, tb, ids=(0, 1), files=0, props=("C01",), known=(),
                   sym=("ec", "md", "json", "minor")):
    def h(E):
        with_ids = ids[E.choice("ids", len(ids))] if len(ids) > 1 else ids[0]
        ctx = G.Ctx(E, bool(with_ids), sym=sym)
        A = G.base_notebook(ctx, ta)
        # second skeleton: other ids, other sources where the family allows
        cells = []
        for i, t in enumerate(tb):
            tm = dict(G.TEMPLATES[t])
            if with_ids:
                tm["id"] = G.NEW_IDS["x"][i % 3] + str(i)
            c = G.mk_cell(ctx, tm, "u%d" % i)
            v = E.choice("var%d" % i, 3)
            if v and tm.get("src"):
                c["source"] = G.SRC[tm["src"]][[0, 1, 6][v]]
            cells.append(c)
        B = G.mk_notebook(ctx, cells, "u")
        a, b = G.finalize(A), G.finalize(B)
        fam_diff.known_assumptions(E, a, b, known)
        nb_roundtrip(E, a, b, props, known, files=bool(files))
    return h, dict(reset=common.nbdime_reset)


ALL_TEMPLATES = ["codeA", "codeB", "codeA0", "codeErr", "codeDisp", "codeRes2", "codeJobj",
                 "codeJlol", "codeJloo", "codeJsc", "codeS", "md", "mdAtt", "raw", "codeT",
                 "codeL", "codeU", "codeEmp", "codeMime", "codeTr", "codeLol", "mdAtt1", "codeJvnd"]


def shards(tier, props, known, files=None, lite=False):
    """lite: the reduced set used when another property rides on this family
    in the quick tier (C11, C13)."""
    kw = dict(props=tuple(props), known=tuple(known))
    out = []
    if lite and tier == "quick":
        for t in ALL_TEMPLATES:
            out.append(("make_related", "rel1-%s" % t,
                        dict(templates=(t,), actions="ACTIONS_FULL", inserts=1, nbacts=("keep", "md_edit"),
                             files=0, **kw)))
        out.append(("make_related", "rel2-codeA-mdAtt",
                    dict(templates=("codeA", "mdAtt"), actions="ACTIONS_PAIR", inserts=0, nbacts=("keep",),
                         files=0, **kw)))
        out.append(("make_unrelated", "unrel-0", dict(ta=("codeA", "md"), tb=("codeB", "raw"), files=0, **kw)))
        return out
    if files is None:
        files = 5 if tier == "quick" else 1
    # every single template with every applicable action and one insertion
    for t in ALL_TEMPLATES:
        out.append(("make_related", "rel1-%s" % t,
                    dict(templates=(t,), actions="ACTIONS_FULL", inserts=1,
                         nbacts=tuple(G.NB_ACTIONS), files=files, **kw)))
    pairs = [("codeA", "codeB"), ("codeA", "mdAtt"), ("codeS", "codeS"), ("codeA", "codeA"),
             ("codeJlol", "codeJloo")]
    if tier == "thorough":
        pairs += [("md", "codeRes2"), ("raw", "codeDisp"), ("codeErr", "codeJsc")]
        pairs += [("codeA", b) for b in ALL_TEMPLATES if ("codeA", b) not in pairs]
    for p in pairs:
        out.append(("make_related", "rel2-%s-%s" % p,
                    dict(templates=p, actions="ACTIONS_PAIR", inserts=1, nbacts=("keep", "md_edit"), files=files, **kw)))
    if tier == "thorough":
        for p in [("codeA", "codeB"), ("md", "codeRes2")]:
            out.append(("make_related", "rel2full-%s-%s" % p,
                        dict(templates=p, actions="ACTIONS_QUICK", inserts=0, nbacts=("keep",), files=0, **kw)))
        for tr in [("codeA", "codeB", "md"), ("codeA", "codeA", "codeB"), ("mdAtt", "codeRes2", "raw")]:
            out.append(("make_related", "rel3-%s-%s-%s" % tr,
                        dict(templates=tr, actions="ACTIONS_PAIR", inserts=1, nbacts=("keep",), files=7, **kw)))
    un = [((), ("codeA",)), (("codeA",), ()), (("codeA", "md"), ("codeB", "raw")),
          (("codeA", "codeB"), ("codeB", "codeA")), (("codeJlol",), ("codeJloo",)),
          (("codeJobj",), ("codeJsc",)), (("mdAtt",), ("md",)), (("codeDisp", "codeErr"), ("codeRes2",))]
    if tier == "thorough":
        un += [((a,), (b,)) for a in ALL_TEMPLATES for b in ALL_TEMPLATES if a < b]
        un += [(("codeA", "codeB", "md"), ("md", "codeB", "codeA")),
               (("codeA", "codeA", "codeA"), ("codeA", "codeA"))]
    for i, (ta, tb) in enumerate(un):
        out.append(("make_unrelated", "unrel-%d" % i, dict(ta=ta, tb=tb, files=1 if files else 0, **kw)))
    return out


BOUNDS = {
    "quick": {
        "related-1": "every one-cell base notebook over the 14 cell templates of gen/notebooks.TEMPLATES x every applicable action of ACTIONS_FULL x <=1 inserted cell (3 kinds, either gap) x 6 notebook-level actions x ids on/off",
        "related-2": "5 two-cell bases x ACTIONS_PAIR (9 actions) per cell x <=1 insertion x 2 notebook-level actions x ids on/off",
        "unrelated": "8 pairs of independent skeletons (0..2 cells each) with source variants",
        "leaves": "symbolic: every execution_count (null|int), every metadata value (null|bool|int|float) at notebook/cell/output level, every number in application/json payloads, nbformat_minor in 0..4 (5 with ids)",
        "file interface": "nbdiff --out / nbpatch -o run in-process on the model instance of every 5th path class",
    },
    "thorough": {
        "related-1": "as quick",
        "related-2": "8 named two-cell bases plus codeA paired with every template x ACTIONS_PAIR (9 actions) per cell x <=1 insertion; 2 bases x ACTIONS_QUICK (20 actions) per cell",
        "related-3": "3 three-cell bases x ACTIONS_PAIR per cell x <=1 insertion",
        "unrelated": "all pairs of one-cell skeletons over the templates + 10 multi-cell pairs",
        "leaves": "as quick",
        "file interface": "on the model instance of every path (every 7th for three-cell bases)",
    },
}
OUTSIDE = ["more than 3 cells / 2 outputs per cell", "string contents outside gen/notebooks pools",
           "notebooks whose source is a list of lines", "nbformat < 4 (converted by nbformat before nbdime sees them)",
           "moves of cells beyond delete+insert of a similar cell (dup action)"]
