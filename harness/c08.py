"""C08 -- merge command and git driver: exit status, output file, behaviour
on failure.

The real nbmergeapp.main_merge and vcs.git.mergedriver.main(['merge', ...])
run in-process on generated triples (8 clean / conflicting scripts, symbolic
leaves, so the merge inside the command executes symbolically), with
missing-file placeholders (null file for base / local / remote / both, empty
base file), 7 strategy configurations and, for nbmerge, three output modes
(--out file; no --out = merged notebook on stdout; --decisions --out = the
decision list as a JSON file).  A single fault -- chosen by
E.choice over 9 step boundaries (reading each input, diffing, deciding,
applying, opening the output, each of the two writes) x 4 kinds (OSError,
MemoryError, KeyboardInterrupt, kill) -- or none is injected.

On every feasible path:
  S1  no fault: exit status == 0  <=>  the library merge of the same inputs
      has no conflicted decision;
  S2  no fault: the output (for the driver: the local path) parses as JSON and
      equals, strictly, the library merge written by nbformat (model instance);
  S2' stdout mode: the text on stdout parses as JSON and equals the library
      merge, the --out location is untouched; --decisions --out: the file
      parses as JSON and equals the library's decision list (model instance),
      and S1 still holds;
  S3  agreed deletion (both sides null): status 0 and the output is removed;
  S4  any fault: the command never reports success (an exception escapes or
      the status is non-zero);
  S5  a fault before the first write leaves the output bytes unchanged
      (for 'kill', the bytes at the instant of the fault).

Outside: real SIGKILL timing inside a C-level write, disk-full semantics,
concurrent writers -- the fault schedule is step-granular.  Non-trivial = a
fault fired, or the merge produced decisions.
"""
import sys

from sx import runner
from . import common, fam_cli

PROP = "C08"


def main():
    common.silence_logging()
    t = common.tier()
    known = common.known_findings(PROP)
    kn = tuple(sorted(known))
    chk = common.Check(PROP, __doc__)
    r = runner.explore("harness.fam_cli", fam_cli.shards(t, (PROP,), kn), nproc=common.nproc(),
                       budget_s=400 if t == "quick" else 3000)
    chk.add("merge-command-and-driver", r)
    if "F21" in known:
        w = runner.explore_inline(fam_cli.make_cli("nbmerge", 0, faults=False, placeholders=("remote-null",),
                                                   strats=(0,), known=(), force_ids=False), max_violations=1)
        if w.violations:
            chk.known_finding("F21", "nbmerge of 4.x notebooks without cell ids against the null file: %s (%s)" % (
                w.violations[0]["label"], "merged declares 4.5 without ids; nbformat adds random ids on write"))
    chk.bounds["merge-command-and-driver"] = (
        "2 entry points x 8 scripts x placeholders (6 for nbmerge; none / empty base for the driver) x 7 strategy "
        "configurations x output modes (nbmerge: file / stdout / decisions file) without faults; 2 entry points x 8 scripts x (no fault + 9 steps x 4 kinds)%s; ids on/off; "
        "symbolic execution counts and metadata values" % (" x 3 placeholders" if t == "thorough" else ""))
    chk.outside += ["--decisions without --out (pretty-printed to the log: rendering is C16)", "step faults in stdout / decisions-file modes (stdout mode: only the consumer of stdout failing -- closed pipe, full disk -- is injected)", "stdout encodings other than UTF-8 (a non-UTF-8 locale; setup_std_streams only re-wraps the interpreter's original sys.stdout)", "more than one fault per run", "faults inside C-level calls",
                    "null-file placeholders combined with id-less notebooks (known finding F21)"]
    chk.stubs += ["nbdime.nbmergeapp.read_notebook -> hands back the generator's notebooks for the three real temp files (real function for placeholders)",
                  "nbdime.nbmergeapp.nbformat.write -> instantiates symbolic leaves with the path's model, then the real nbformat.write",
                  "nbdime.nbmergeapp.json.dump -> instantiates symbolic leaves with the path's model, then the real json.dump",
                  "sys.stdout -> io.StringIO for the duration of main_merge",
                  "pathlib.Path.open / file.write on the output path -> fault-injecting wrapper",
                  "diff_notebooks / decide_merge_with_diff / apply_decisions in nbdime.merging.notebooks wrapped with fault points",
                  "nbdime.args.get_defaults_for_argparse -> {} for the driver's parser"] + \
        __import__("harness.fam_nbmerge", fromlist=["STUBS"]).STUBS[:2]
    chk.require_goals(["clean-exit", "conflict-exit", "agreed-deletion", "driver-wrote-local-path", "merged-to-stdout", "decisions-to-file", "stdout-fault-BrokenPipeError", "stdout-fault-ENOSPC"] +
                      ["fault-" + s for s in fam_cli.STEPS] + ["kind-" + k for k in fam_cli.KINDS])
    return chk.finish()


if __name__ == "__main__":
    sys.exit(main())
