"""Shared plumbing of the checks: tiers, known findings, nbdime state reset,
evidence files, verdict / exit codes.

Exit codes: 0 every obligation discharged and the path tree exhausted;
1 a counterexample that replayed on the real code with plain Python values
(prints VIOLATION property=<id> replay=<path>); 2 inconclusive (budget, solver
unknown, Concretize, shadow-run disagreement, non-replaying counterexample,
unmet coverage goal) -- never a VIOLATION line.
"""
import json
import os
import sys
import time

VERIF = os.path.dirname(os.path.dirname(os.path.abspath(__file__)))
# VERIF_EVIDENCE_DIR redirects evidence / replays (used by tools/killmatrix.sh
# so that runs against seeded changes never touch the committed evidence)
EVID = os.environ.get("VERIF_EVIDENCE_DIR") or os.path.join(VERIF, "evidence")
REPLAYS = os.path.join(os.environ["VERIF_EVIDENCE_DIR"], "replays") if os.environ.get("VERIF_EVIDENCE_DIR") \
    else os.path.join(VERIF, "replays")


def tier():
    t = os.environ.get("VERIF_TIER", "quick")
    for a in sys.argv[1:]:
        if a in ("quick", "thorough"):
            t = a
        if a.startswith("--tier="):
            t = a.split("=", 1)[1]
    return t if t in ("quick", "thorough") else "quick"


def seed():
    try:
        return int(os.environ.get("VERIF_SEED", "0"))
    except ValueError:
        return 0


def nproc():
    try:
        return int(os.environ.get("VERIF_NPROC", "0")) or min(16, os.cpu_count() or 1)
    except ValueError:
        return min(16, os.cpu_count() or 1)


# ------------------------------------------------------------ known findings
def known_findings(prop=None):
    with open(os.path.join(VERIF, "known_findings.json")) as f:
        data = json.load(f)
    out = {}
    for e in data.get("findings", []):
        if e.get("status") != "open":
            continue
        if prop is None or prop in e.get("properties", []):
            out[e["id"]] = e
    return out


def match_exception_finding(known, sig):
    """known: dict id -> entry (or iterable of ids); an entry may carry
    'exception_signature' (regex on 'Type: message @ file:line func')."""
    import re
    entries = known if isinstance(known, dict) else known_findings()
    for fid, e in entries.items():
        if not isinstance(known, dict) and fid not in known:
            continue
        pat = e.get("exception_signature")
        if pat and re.search(pat, sig):
            return fid
    return None


def match_schema_finding(known, err, instance=None):
    import re
    entries = known if isinstance(known, dict) else known_findings()
    for fid, e in entries.items():
        if not isinstance(known, dict) and fid not in known:
            continue
        pat = e.get("schema_signature")
        if pat and re.search(pat, err):
            return fid
    return None


# ----------------------------------------------------------- nbdime state
_pristine = {}


def nbdime_reset():
    """Put nbdime's module-level state back to its import-time value.  Used
    between paths (except by C12, whose subject is exactly that state)."""
    import nbdime.diffing.notebooks as nbs
    import nbdime.merging.generic as mg
    if not _pristine:
        _pristine["pred"] = dict(nbs.notebook_predicates)
        _pristine["diff"] = dict(nbs.notebook_differs)
    for table, key in ((nbs.notebook_predicates, "pred"), (nbs.notebook_differs, "diff")):
        want = _pristine[key]
        for k in list(table.keys()):
            if k not in want:
                del table[k]
        for k, v in want.items():
            if table.get(k, None) is not v:
                dict.__setitem__(table, k, v)
    mg._merge_strings.recursion = False
    _reset_module_containers()
    install_stubs()


_containers = {}


def _reset_module_containers():
    """Every module-level dict / list / set of a loaded nbdime module gets its
    import-time contents back (shallow), so that a path never sees what an
    earlier path left in a module-level cache: each path then behaves like a
    fresh process, which is what the replay runs.  (Histories inside one
    process are the subject of C12 and of the second-merge shards.)"""
    import sys as _sys
    for name, mod in list(_sys.modules.items()):
        if mod is None or not (name == "nbdime" or name.startswith("nbdime.")) or ".tests" in name:
            continue
        for gname, val in list(mod.__dict__.items()):
            if gname.startswith("__") or type(val) not in (dict, list, set):
                continue
            key = (name, gname)
            if key not in _containers:
                _containers[key] = (val, type(val)(val))
                continue
            obj, want = _containers[key]
            if val is not obj:
                # rebound since import: remember the new object as it is now
                _containers[key] = (val, type(val)(val))
                continue
            if type(val) is list:
                if len(val) != len(want) or any(a is not b for a, b in zip(val, want)):
                    val[:] = want
            elif type(val) is dict:
                if len(val) != len(want) or any(k not in val or val[k] is not v for k, v in want.items()):
                    val.clear()
                    val.update(want)
            else:
                if val != want:
                    val.clear()
                    val.update(want)


# pure boolean leaf predicates of nbdime that sx explores as one summarised
# decision (state merging; the summary is computed from the real function)
SUMMARIZED = ("equal_json_values",)


def install_stubs():
    """Proxy-aware isinstance in every loaded nbdime module (part of the
    claim: semantically identical to the builtin on ordinary objects)."""
    import sys as _sys
    from sx.values import sym_isinstance, summarized
    for name, mod in list(_sys.modules.items()):
        if mod is not None and (name == "nbdime" or name.startswith("nbdime.")) \
                and ".tests" not in name:
            if mod.__dict__.get("isinstance") is not sym_isinstance:
                mod.__dict__["isinstance"] = sym_isinstance
            for fname in SUMMARIZED:
                f = mod.__dict__.get(fname)
                if f is not None and callable(f) and not getattr(f, "_sx_summarized", False):
                    mod.__dict__[fname] = summarized(f)


def silence_logging():
    import logging
    logging.disable(logging.CRITICAL)


# ------------------------------------------------------------------ verdict
class Check(object):
    """Collects the result of one check run and writes evidence / verdict."""

    def __init__(self, prop, explanation, technique="bounded symbolic execution (sx on z3)"):
        self.prop = prop
        self.tier = tier()
        self.seed = seed()
        self.t0 = time.time()
        self.explanation = explanation
        self.technique = technique
        self.parts = []           # (name, Result)
        self.bounds = {}
        self.outside = []
        self.assumptions = []
        self.stubs = []
        self.goals_required = []
        self.extra = {}
        self.known_lines = []
        self.crosshair = []
        self.violations = []
        self.inconclusive = []

    def add(self, name, result, nontrivial_rule=None):
        self.parts.append((name, result))
        for v in result.violations:
            v = dict(v)
            v["part"] = name
            self.violations.append(v)
        if result.status != "ok":
            self.inconclusive.append("%s: %s %s" % (name, result.status, "; ".join(result.messages[:3])))

    def require_goals(self, goals):
        self.goals_required += list(goals)

    def known_finding(self, fid, what):
        line = "KNOWN-FINDING: property=%s %s: %s" % (self.prop, fid, what)
        if line not in self.known_lines:
            self.known_lines.append(line)

    def finish(self):
        from sx import engine as eng
        total = eng.Stats()
        funcs = set()
        samples = []
        per_part = {}
        for name, r in self.parts:
            total.add(r.stats)
            funcs |= r.funcs
            for s in r.samples[:2]:
                s = dict(s)
                s["part"] = name
                samples.append(s)
            per_part[name] = dict(r.stats.as_dict(), wall_s=round(r.wall, 1),
                                  exhausted=r.exhausted, shards=len(r.per_shard))
        # recorded findings that were observed on explored paths of this run
        try:
            kf = known_findings(self.prop)
        except Exception:  # noqa
            kf = {}
        for fid, n in sorted(total.known.items()):
            if n and fid in kf and not any((" %s:" % fid) in ln for ln in self.known_lines):
                self.known_finding(fid, "%s (met on %d explored paths)" % (kf[fid].get("short", kf[fid]["what"][:160]), n))
        unmet = [g for g in self.goals_required if not total.goals.get(g)]
        if unmet:
            self.inconclusive.append("coverage goals never witnessed: %s" % ", ".join(unmet))
        wall = time.time() - self.t0
        replay_paths = []
        if self.violations:
            os.makedirs(REPLAYS, exist_ok=True)
            for i, v in enumerate(self.violations):
                p = os.path.join(REPLAYS, "%s_%s_%d.json" % (self.prop, self.tier, i))
                with open(p, "w") as f:
                    json.dump(dict(property=self.prop, **_jsonable(v)), f, indent=1, sort_keys=True)
                replay_paths.append(p)
        # every reported counterexample must also replay in a fresh interpreter
        # (plain Python values, no solver): ./vcheck replay <file>
        if self.violations:
            import subprocess
            confirmed, paths2 = [], []
            for v, p in list(zip(self.violations, replay_paths))[:6]:
                try:
                    rc = subprocess.run([sys.executable, "-m", "harness.replay", p], cwd=VERIF,
                                        stdout=subprocess.DEVNULL, stderr=subprocess.DEVNULL,
                                        timeout=300).returncode
                except Exception:  # noqa
                    rc = -1
                if rc == 1:
                    confirmed.append(v)
                    paths2.append(p)
                else:
                    self.inconclusive.append("counterexample %s did not replay in a fresh interpreter (rc=%s): %s" % (
                        p, rc, str(v.get("info"))[:200]))
            self.violations, replay_paths = confirmed, paths2
        if not samples:
            samples = [dict(note="no path sample recorded")]
        if self.violations:
            samples = [dict(violation=_jsonable(v)) for v in self.violations[:3]] + samples
        cov = dict(
            explanation=self.explanation,
            technique=self.technique,
            functions_encoded=sorted(funcs),
            bounds=self.bounds,
            outside_bounds=self.outside,
            evaluations=total.paths,
            paths=total.paths,
            distinct_nontrivial=total.nontrivial,
            rule=("one evaluation = one feasible execution path of the harness through the real "
                  "nbdime code (distinct decision trace); non-trivial by the harness's rule "
                  "(see explanation); every path's obligations are decided by z3 for all values "
                  "on the path"),
            obligations=total.obligations,
            discharged=total.discharged,
            solver_queries=total.queries,
            solver_time_s=round(total.solver_s, 2),
            forks=total.forks,
            forced_decisions=total.forced,
            infeasible_pruned=total.pruned,
            shadow_runs=total.shadow_runs,
            second_solver_crosschecks=total.crosschecks,
            second_solver_inconclusive=total.crosscheck_timeouts,
            second_solver_note=("every %s-th solver-decided obligation (path condition + negated obligation) exported "
                                "as SMT-LIB2 and re-decided by the z3 4.8.12 and cvc5 1.0 binaries; any disagreement "
                                "is an engine error" % os.environ.get("VERIF_CROSSCHECK", "0")),
            coverage_goals=total.goals,
            coverage_goals_required=self.goals_required,
            known_findings_seen=total.known,
            known_finding_lines=self.known_lines,
            stubs=self.stubs,
            parts=per_part,
            samples=samples[:8],
            exhaustive=all(r.exhausted for _, r in self.parts) and not self.inconclusive,
            crosshair=self.crosshair,
            inconclusive=self.inconclusive,
        )
        cov.update(self.extra)
        ev = dict(property_id=self.prop, tier=self.tier, seed=self.seed, level="other",
                  coverage=cov, assumptions=self.assumptions, wall_s=round(wall, 2),
                  violations=len(self.violations))
        os.makedirs(EVID, exist_ok=True)
        with open(os.path.join(EVID, "%s.json" % self.prop), "w") as f:
            json.dump(_jsonable(ev), f, indent=1, sort_keys=True)
        for line in self.known_lines:
            print(line)
        print("%s tier=%s paths=%d nontrivial=%d obligations=%d/%d queries=%d solver=%.1fs "
              "wall=%.1fs" % (self.prop, self.tier, total.paths, total.nontrivial,
                              total.discharged, total.obligations, total.queries,
                              total.solver_s, wall))
        if self.violations:
            for v, p in list(zip(self.violations, replay_paths))[:3]:
                print("  counterexample [%s] %s: %s" % (v.get("part"), v.get("label"),
                                                        str(v.get("info"))[:400]))
                print("VIOLATION property=%s replay=%s" % (self.prop, p))
            sys.stdout.flush()
            return 1
        if self.inconclusive:
            for m in self.inconclusive:
                print("INCONCLUSIVE %s: %s" % (self.prop, m[:2000]))
            sys.stdout.flush()
            return 2
        print("OK %s: every obligation discharged on every explored path; path tree exhausted "
              "within the stated bounds" % self.prop)
        sys.stdout.flush()
        return 0


def _jsonable(x):
    if isinstance(x, dict):
        return {str(k): _jsonable(v) for k, v in x.items()}
    if isinstance(x, (list, tuple, set)):
        return [_jsonable(v) for v in x]
    if isinstance(x, (str, int, float, bool)) or x is None:
        return x
    return repr(x)
