"""C14 -- ignore options hide exactly the ignored categories and nothing else.

Ignored category set I (all 64 subsets of sources, outputs, attachments,
metadata, id, details) x delivery mode (positive flags and negative flags
through the real nbdiff argument parser + process_diff_flags;
set_notebook_diff_targets; an 'Ignore' mapping as documented in config.rst
through set_notebook_diff_ignores) x a per-category difference pattern between
A and B (source edit; output text edit / added output; attachment edit / add;
metadata at notebook, code-cell, output or markdown-cell level; id of one or
both cells; execution count of the cell or of an execute_result) -- all by
E.choice; the new metadata values and execution counts are symbolic, so
whether they really differ is decided by the solver per path.

On every feasible path of the real diff_notebooks:
  I1  no diff entry lies inside an ignored category (output-level metadata and
      execution counts are inside 'outputs' as well as 'metadata'/'details');
  I2  refpatch(A, d) is json_identical to B after projecting the ignored
      categories out of both;
  I3  if sources are unchanged and the diff is non-empty, the projections of
      A and B cannot be identical (differences only in ignored outputs /
      attachments / metadata / ids / details => empty diff).
The differ tables are reset before and after each path.  Non-trivial = some
category ignored and some difference present.
"""
import sys

from sx import runner
from . import common, fam_ignore

PROP = "C14"


def main():
    common.silence_logging()
    t = common.tier()
    known = common.known_findings(PROP)
    kn = tuple(sorted(known))
    chk = common.Check(PROP, __doc__)
    r = runner.explore("harness.fam_ignore", fam_ignore.shards(t, (PROP,), kn), nproc=common.nproc(),
                       budget_s=500 if t == "quick" else 3300)
    chk.add("ignore-options", r)
    chk.bounds["ignore-options"] = (
        "two-cell notebook (code cell with stream + execute_result outputs carrying metadata and execution count; "
        "markdown cell with an attachment), ids present; 64 ignore subsets x 4 delivery modes x difference patterns: "
        + ("binary per category for sources/outputs/attachments/id (variant rotating), all 5 metadata and 3 details variants"
           if t == "quick" else "every variant of every category for the targets and negative-flag modes, quick pattern for the others"))
    chk.outside += ["notebooks without ids (the id category is vacuous there)", "dissimilar source edits (cells would be re-aligned; the empty-diff clause excludes sources)",
                    "Ignore mappings other than the one equivalent to the category set"]
    chk.stubs += ["nbdime.args.get_defaults_for_argparse -> {} while the nbdiff parser runs (no configuration files; C19 covers them)",
                  "isinstance inside nbdime modules -> sx.values.sym_isinstance"]
    chk.require_goals(["nonempty-diff-with-ignores", "empty-diff-with-differences",
                       "key-list-ignore-with-in-place-change", "empty-base-source-gets-text",
                       "code-cells-exchange-ids-and-differ-in-ignored-outputs", "several-notebooks-in-one-nbdiff-run"])
    chk.bounds["special shapes"] = ("shape 1: the code cell's source is empty in A (sources / outputs / cell metadata / execution count differences); "
                                    "shape 2: two code cells that exchange their ids and both differ in outputs / output metadata / execution counts; "
                                    "64 subsets x 2 (4) delivery modes.  One nbdiff run over 2-3 changed notebooks (changed_notebooks stubbed): "
                                    "64 subsets x positive / negative flags, concrete leaves")
    chk.bounds["key-list ignores"] = ("'Ignore' mappings with key lists: 32 subsets of 5 (path, key) pairs at notebook, cell and "
                                      "output metadata level x 32 difference subsets (scalar replacement / in-place change of an "
                                      "object or list value)")
    return chk.finish()


if __name__ == "__main__":
    sys.exit(main())
