"""Harness family "generic three-way merge" (decide_merge / apply_decisions on
generic JSON documents).  Obligations by property:

C05  identity / one-sided adoption / agreement / side symmetry
C06  changes at separate positions / under different keys combine cleanly
C09  decisions determine the merge (reference applier), choose-local /
     choose-remote reproduce the sides, schema, ordering
C11  diffs embedded in decisions are well-formed for the sub-document
C13  inputs unchanged
"""
import z3

from sx.values import (json_identical, unchanged, land, lnot, lor, implies, py_equal, snapshot, SymBool)
from gen import docs
from oracles.refpatch import refpatch, RefPatchError
from oracles.refapply import refapply, RefApplyError, ordering_errors
from oracles.wellformed import wellformed
from oracles import schema as schemas
from oracles.alias import shared_containers
from . import common


def strategies_for(name):
    from nbdime.utils import Strategies
    if name in (None, "none"):
        return Strategies({})
    if name.endswith("@paths"):
        # the strategy set on the root and on every path below it that the
        # generated documents can have
        n = name[:-6]
        return Strategies({p: n for p in ("/", "/a", "/b", "/c", "/*", "/a/*", "/b/*", "/*/*", "/*/a", "/*/b")})
    return Strategies({"/": name})


def merge(b, l, r, strat):
    """(merged, decisions) through the real decide_merge + apply_decisions."""
    from nbdime.merging.generic import decide_merge
    from nbdime.merging.decisions import apply_decisions
    ds = decide_merge(b, l, r, strategies_for(strat))
    m = apply_decisions(b, ds)
    return m, ds


def conflicted(ds):
    return any(d.conflict for d in ds)


def both_insert_same_position(dl, dr):
    """Do the two diffs (against the same base) both contain an addrange at
    one list position, at any depth?  (C05's proviso.)"""
    la = {e.key: e for e in dl}
    ra = {e.key: e for e in dr}
    if any(e.op == "addrange" for e in dl) and any(e.op == "addrange" for e in dr):
        lk = set(e.key for e in dl if e.op == "addrange")
        rk = set(e.key for e in dr if e.op == "addrange")
        if lk & rk:
            return True
    lp = {e.key: e for e in dl if e.op == "patch"}
    rp = {e.key: e for e in dr if e.op == "patch"}
    for k in set(lp) & set(rp):
        if both_insert_same_position(lp[k].diff, rp[k].diff):
            return True
    return False


def sub_document(base, path):
    cur = base
    for i, k in enumerate(path):
        if isinstance(cur, str):
            lines = cur.splitlines(True)
            return lines[k], "chars"
        cur = cur[k]
    return cur, None


def decision_obligations(E, b, l, r, m, ds, props, known, relabel_ok=True):
    """C09 / C11 obligations on one decision list."""
    if "C09" in props:
        try:
            rm = refapply(b, ds)
        except (RefApplyError, RefPatchError) as ex:
            E.fail("refapply-rejects-decisions", str(ex)[:300])
            return
        E.check("refapply(base,decisions)==merged", json_identical(rm, m))
        if relabel_ok:
            for side, target in (("local", l), ("remote", r)):
                def relabel(dec, side=side):
                    return side if dec.get(side + "_diff") else "base"
                try:
                    x = refapply(b, ds, relabel=relabel)
                except (RefApplyError, RefPatchError) as ex:
                    E.fail("choose-%s-rejected" % side, str(ex)[:300])
                    return
                E.check("choose-%s-everywhere==%s" % (side, side), json_identical(x, target))
        errs = ordering_errors(ds)
        E.check("decisions-ordered-inner-before-enclosing", not errs, info=errs[:2])
        inst = E.instance([dict(d) for d in ds])
        errs = schemas.merge_schema_errors(inst)
        E.check("decisions-validate-against-schema", not errs, info=errs[:3])
        E.check("decisions-survive-json-roundtrip", schemas.json_roundtrip_ok(inst))
    if "C11" in props:
        for i, d in enumerate(ds):
            try:
                sub, level = sub_document(b, d.common_path)
            except (KeyError, IndexError, TypeError):
                E.fail("decision-path-unresolvable", repr(d.common_path))
                return
            for field in ("local_diff", "remote_diff", "custom_diff"):
                df = d.get(field)
                if df:
                    errs = wellformed(df, sub, path="dec%d.%s" % (i, field), level=level)
                    E.check("decision-diff-wellformed", not errs, info=errs[:3])


def purity_before(b, l, r):
    return snapshot(b), snapshot(l), snapshot(r)


def purity_after(E, b, l, r, snaps, what):
    sb, sl, sr = snaps
    E.check("%s-leaves-base-unchanged" % what, unchanged(b, sb))
    E.check("%s-leaves-local-unchanged" % what, unchanged(l, sl))
    E.check("%s-leaves-remote-unchanged" % what, unchanged(r, sr))


STR_ROOTS = ["", "a\n", "a\nb\n", "a\nc\n", "a\nb", "x\na\nb\n", "quite another text\n"]


# ------------------------------------------------------------------ C05 laws
def make_laws(root, alts, n, strat="none", leafkind="int", props=("C05",), known=()):
    """b and x of the same container type; the four laws that need two
    documents (identity, adoption left/right, agreement)."""
    alts_ = getattr(docs, alts)

    def gen(E, name, k):
        if root == "S":
            # string documents: enumeration over a small pool (string content is never symbolic)
            return STR_ROOTS[E.choice(name, len(STR_ROOTS))]
        if root == "L":
            return docs.pick_list(E, name, alts_, k, leafkind, n=k)
        return docs.pick_dict(E, name, alts_, ("a", "b"), leafkind)

    def h(E):
        nb_, nx = n
        b = gen(E, "b", nb_)
        x = gen(E, "x", nx)
        if "F3" in known and root == "L" and nb_ == 0 and nx == 0:
            E.known("F3")
            return
        cases = [("identity", b, b, b, b), ("adopt-local", b, x, b, x),
                 ("adopt-remote", b, b, x, x), ("agreement", b, x, x, x)]
        for name, bb, ll, rr, want in cases:
            snaps = purity_before(bb, ll, rr) if "C13" in props else None
            try:
                m, ds = merge(bb, ll, rr, strat)
            except Exception as ex:  # noqa
                if "C05" in props:
                    E.fail("%s-raised" % name, "%s: %s" % (type(ex).__name__, str(ex)[:200]))
                return
            E.nontrivial(len(ds) > 0)
            E.goal("law-with-decisions", len(ds) > 0)
            if "C05" in props:
                E.check("%s-no-conflict" % name, not conflicted(ds))
                E.check("%s-result" % name, json_identical(m, want))
            if "C13" in props:
                purity_after(E, bb, ll, rr, snaps, "merge")
            decision_obligations(E, bb, ll, rr, m, ds, props, known)
    return h, dict(reset=common.nbdime_reset)


def make_triples(root, alts, n, strat="none", leafkind="int", props=("C05",), known=(), keys=("a", "b")):
    """Arbitrary triples (b, l, r): symmetry (C05), decisions (C09, C11),
    purity (C13)."""
    alts_ = getattr(docs, alts)

    def gen(E, name, k):
        if root == "L":
            return docs.pick_list(E, name, alts_, k, leafkind, n=k)
        return docs.pick_dict(E, name, alts_, keys, leafkind)

    def h(E):
        import nbdime
        b = gen(E, "b", n[0])
        l = gen(E, "l", n[1])
        r = gen(E, "r", n[2])
        if "F3" in known and root == "L" and n == (0, 0, 0):
            E.known("F3")
            return
        snaps = purity_before(b, l, r) if "C13" in props else None
        try:
            m, ds = merge(b, l, r, strat)
        except Exception as ex:  # noqa
            if "C05" in props or "C09" in props:
                E.fail("merge-raised", "%s: %s" % (type(ex).__name__, str(ex)[:200]))
            return
        c1 = conflicted(ds)
        E.nontrivial(len(ds) > 0)
        E.goal("conflict", c1)
        E.goal("clean-two-sided", (not c1) and any(d.local_diff for d in ds)
               and any(d.remote_diff for d in ds))
        E.goal("nested-decision", any(len(d.common_path) > 0 for d in ds))
        if "C13" in props:
            purity_after(E, b, l, r, snaps, "merge")
            # diffs supplied by the caller must come back unchanged
            from nbdime.merging.generic import decide_merge_with_diff
            dl, dr = nbdime.diff(b, l), nbdime.diff(b, r)
            sdl, sdr = snapshot(dl), snapshot(dr)
            decide_merge_with_diff(b, l, r, dl, dr, strategies_for(strat))
            E.check("decide-leaves-supplied-local-diff-unchanged", unchanged(dl, sdl))
            E.check("decide-leaves-supplied-remote-diff-unchanged", unchanged(dr, sdr))
            sd = snapshot([dict(d) for d in ds])
            from nbdime.merging.decisions import apply_decisions
            m2 = apply_decisions(b, ds)
            E.check("apply-leaves-base-unchanged", unchanged(b, snaps[0]))
            E.check("apply-leaves-decisions-unchanged", unchanged([dict(d) for d in ds], sd))
            sh = shared_containers(m2, [("base", b)])
            E.check("merged-shares-no-container-with-base", not sh, info=sh[:3])
        decision_obligations(E, b, l, r, m, ds, props, known, relabel_ok=(strat in (None, "none", "mergetool")))
        if "C05" in props:
            dl = nbdime.diff(b, l)
            dr = nbdime.diff(b, r)
            if both_insert_same_position(dl, dr):
                E.goal("symmetry-proviso-excluded")
                return
            try:
                m2, ds2 = merge(b, r, l, strat)
            except Exception as ex:  # noqa
                E.fail("swapped-merge-raised", "%s: %s" % (type(ex).__name__, str(ex)[:200]))
                return
            c2 = conflicted(ds2)
            E.check("symmetry-conflict-verdict", c1 == c2,
                    info="conflicted(local,remote)=%s conflicted(remote,local)=%s" % (c1, c2))
            if not c1 and not c2:
                E.goal("symmetry-clean")
                E.check("symmetry-merged-identical", json_identical(m, m2))
    return h, dict(reset=common.nbdime_reset)


# ------------------------------------------------------------------ C06
def make_disjoint_list(n, leafkind="int", props=("C06",), known=()):
    """Base list of n distinct symbolic items; each position owned by none /
    local / remote (E.choice), positions of different owners never adjacent;
    the owner replaces or deletes its item; a side may insert into a gap only
    if neither neighbour is owned by the other side.  All values pairwise
    distinct (solver assumption) so that 'position' is unambiguous."""
    def h(E):
        base = [E.int("b%d" % i) for i in range(n)]
        allv = list(base)
        owner = [E.choice("own%d" % i, 3) for i in range(n)]   # 0 none 1 local 2 remote
        for i in range(n - 1):
            if owner[i] and owner[i + 1] and owner[i] != owner[i + 1]:
                E.assume(False)
        act = [E.choice("act%d" % i, 2) if owner[i] else 0 for i in range(n)]  # 0 replace 1 delete
        ins = []
        for g in range(n + 1):
            c = E.choice("ins%d" % g, 3)        # 0 none 1 local 2 remote
            if c:
                other = 3 - c
                if (g > 0 and owner[g - 1] == other) or (g < n and owner[g] == other):
                    E.assume(False)
            ins.append(c)
        sides = {1: [], 2: []}
        expected = []
        for i in range(n + 1):
            if ins[i]:
                v = E.int("i%d" % i)
                allv.append(v)
                sides[ins[i]].append(("ins", i, v))
            if i < n and owner[i]:
                if act[i] == 0:
                    v = E.int("n%d" % i)
                    allv.append(v)
                    sides[owner[i]].append(("rep", i, v))
                else:
                    sides[owner[i]].append(("del", i, None))
        for i in range(len(allv)):
            for j in range(i + 1, len(allv)):
                E.assume(allv[i] != allv[j])

        def apply(ops):
            out = []
            byi = {}
            for kind, i, v in ops:
                byi.setdefault(i, []).append((kind, v))
            for i in range(n + 1):
                for kind, v in byi.get(i, []):
                    if kind == "ins":
                        out.append(v)
                if i < n:
                    ks = [k for k in byi.get(i, []) if k[0] != "ins"]
                    if not ks:
                        out.append(base[i])
                    elif ks[0][0] == "rep":
                        out.append(ks[0][1])
            return out
        local = apply(sides[1])
        remote = apply(sides[2])
        expected = apply(sides[1] + sides[2])
        if n == 0 and not sides[1] and not sides[2] and "F3" in known:
            E.known("F3")
            return
        try:
            m, ds = merge(base, local, remote, "none")
        except Exception as ex:  # noqa
            E.fail("merge-raised", "%s: %s" % (type(ex).__name__, str(ex)[:200]))
            return
        E.nontrivial(bool(sides[1]) and bool(sides[2]))
        E.goal("both-sides-changed", bool(sides[1]) and bool(sides[2]))
        E.check("disjoint-no-conflict", not conflicted(ds))
        E.check("disjoint-merged==expected", json_identical(m, expected))
    return h, dict(reset=common.nbdime_reset)


def make_disjoint_dict(keys=("a", "b", "c"), props=("C06",), known=()):
    """Object with keys owned by none / local / remote; the owner replaces the
    value, removes the key, or (key absent in base) adds it; values that are
    lists may be edited in place (nested patch)."""
    def h(E):
        base, local, remote, expected = {}, {}, {}, {}
        nl = nr = 0
        for k in keys:
            present = E.choice("has_%s" % k, 2)
            owner = E.choice("own_%s" % k, 3)
            kind = E.choice("kind_%s" % k, 2)     # 0 scalar value, 1 list value
            if present:
                if kind == 0:
                    bv = E.int("b_%s" % k)
                else:
                    bv = [E.int("b_%s0" % k), E.int("b_%s1" % k)]
                base[k] = bv
            if not owner:
                if present:
                    local[k] = remote[k] = expected[k] = bv
                continue
            a = E.choice("act_%s" % k, 2)   # present: 0 edit 1 remove ; absent: add
            tgt = {}
            if present and a == 1:
                pass
            else:
                if kind == 0:
                    nv = E.int("n_%s" % k)
                    if present:
                        E.assume(nv != bv)
                else:
                    nv0 = E.int("n_%s0" % k)
                    if present:
                        E.assume(nv0 != bv[0])
                        E.assume(nv0 != bv[1])
                        nv = [nv0, bv[1]]
                    else:
                        nv = [nv0]
                tgt[k] = nv
            if owner == 1:
                nl += 1
                local.update(tgt)
                if present:
                    remote[k] = bv
            else:
                nr += 1
                remote.update(tgt)
                if present:
                    local[k] = bv
            expected.update(tgt)
        try:
            m, ds = merge(base, local, remote, "none")
        except Exception as ex:  # noqa
            E.fail("merge-raised", "%s: %s" % (type(ex).__name__, str(ex)[:200]))
            return
        E.nontrivial(nl > 0 and nr > 0)
        E.goal("both-sides-changed", nl > 0 and nr > 0)
        E.check("disjoint-no-conflict", not conflicted(ds))
        E.check("disjoint-merged==expected", json_identical(m, expected))
    return h, dict(reset=common.nbdime_reset)


# ------------------------------------------------------------------ shards
def law_shards(tier, props, known, strats=("none",)):
    kw = dict(props=tuple(props), known=tuple(known))
    out = []
    N = 3 if tier == "quick" else 4
    for s in strats:
        for i in range(N + 1):
            for j in range(N + 1):
                out.append(("make_laws", "laws-flat-%s-%dx%d" % (s, i, j),
                            dict(root="L", alts="ALTS_X", n=(i, j), strat=s, **kw)))
        M = 2
        for i in range(M + 1):
            for j in range(M + 1):
                out.append(("make_laws", "laws-nested-%s-%dx%d" % (s, i, j),
                            dict(root="L", alts="ALTS_MERGE", n=(i, j), strat=s, **kw)))
        out.append(("make_laws", "laws-dict-%s" % s,
                    dict(root="D", alts="ALTS_MERGE", n=(0, 0), strat=s, **kw)))
        out.append(("make_laws", "laws-str-%s" % s,
                    dict(root="S", alts="ALTS_MERGE", n=(0, 0), strat=s, **kw)))
    return out


def triple_shards(tier, props, known, strats=("none",)):
    kw = dict(props=tuple(props), known=tuple(known))
    out = []
    N = 3
    for s in strats:
        for i in range(N + 1):
            for j in range(N + 1):
                for k in range(N + 1):
                    if tier == "quick" and i + j + k > 7:
                        continue
                    out.append(("make_triples", "tri-flat-%s-%d%d%d" % (s, i, j, k),
                                dict(root="L", alts="ALTS_X", n=(i, j, k), strat=s, **kw)))
        for i in range(3):
            for j in range(3):
                for k in range(3):
                    if tier == "quick" and i + j + k > 4:
                        continue
                    out.append(("make_triples", "tri-nested-%s-%d%d%d" % (s, i, j, k),
                                dict(root="L", alts="ALTS_MERGE", n=(i, j, k), strat=s, **kw)))
        out.append(("make_triples", "tri-dict-%s" % s,
                    dict(root="D", alts="ALTS_MERGE" if tier == "thorough" else "ALTS_MERGE_S",
                         n=(0, 0, 0), strat=s, **kw)))
        # a key that looks like an integer next to an ordinary one, nested
        out.append(("make_triples", "tri-dict-intkey-%s" % s,
                    dict(root="D", alts="ALTS_INTKEY", n=(0, 0, 0), strat=s, keys=("1", "b"), **kw)))
    return out


def disjoint_shards(tier, props, known):
    kw = dict(props=tuple(props), known=tuple(known))
    out = []
    for n in range(0, 5 if tier == "quick" else 6):
        out.append(("make_disjoint_list", "disjoint-list-%d" % n, dict(n=n, **kw)))
    out.append(("make_disjoint_dict", "disjoint-dict", dict(**kw)))
    # keys that look like integers next to ordinary ones (years, counters as
    # metadata keys): paths are sorted with such keys treated as numbers
    out.append(("make_disjoint_dict", "disjoint-dict-intkeys", dict(keys=("a", "1", "2019"), **kw)))
    return out
