"""C09 -- merge decisions losslessly describe the merge and follow the
published schema.

For every feasible path of the notebook merge exploration (default-strategy
script product under 'mergetool' and under the default strategy; 40 conflict
scripts x the whole strategy product x 3 back ends) and of the generic
decide_merge exploration (triples of lists / nested lists / objects):

  A  json_identical(refapply(base, decisions), merged)   -- reference applier
     written from docs/source/merging.rst; an action outside the schema's
     enumeration, an unresolvable common_path or a non-contiguous path group
     is a violation;
  B  (conflicts left open: 'mergetool' / no strategy) with every decision
     relabelled to the local side (local if it has a local diff, else base)
     the reference applier gives local; same for remote;
  C  the model instance of the decision list serialises to JSON, validates
     against merge_format.schema.json (+ diff_format.schema.json) and
     survives a JSON round trip unchanged;
  D  ordering: no decision on a path p occurs before a decision on a strict
     extension of p; each path group is contiguous and applies without
     re-indexing.

nbformat_minor of base, local and remote are three independent symbolic
leaves (minors differing on all three sides are inside the bound).
Non-trivial = at least one decision.
"""
import sys

from sx import runner
from . import common, fam_merge, fam_nbmerge as F

PROP = "C09"


def main():
    common.silence_logging()
    t = common.tier()
    known = common.known_findings(PROP)
    kn = tuple(sorted(known))
    chk = common.Check(PROP, __doc__)
    base = F.default_shards(t, (PROP,), kn, tools=("git",))
    sh = F.with_strat(base, ("mergetool", None, None, True), "-mergetool")
    sh += F.with_strat([s for s in base if s[1].startswith(("act-", "nb-", "scn-"))], ("inline", None, None, True), "-inline")
    r = runner.explore("harness.fam_nbmerge", sh, nproc=common.nproc(),
                       budget_s=450 if t == "quick" else 3000)
    chk.add("notebook-decisions", r)
    r = runner.explore("harness.fam_nbmerge", F.strategy_shards(t, (PROP,), kn, tools=("git",) if t == "quick" else F.TOOLS),
                       nproc=common.nproc(), budget_s=300 if t == "quick" else 3000)
    chk.add("strategy-product", r)
    sh = fam_merge.triple_shards(t, (PROP,), kn, strats=("none", "mergetool") if t == "thorough" else ("none",))
    r = runner.explore("harness.fam_merge", sh, nproc=common.nproc(), budget_s=400 if t == "quick" else 4000)
    chk.add("generic-decisions", r)
    chk.bounds.update(F.BOUNDS[t])
    chk.bounds["generic"] = "triples of lists of 0..3 symbolic ints, lists of 0..2 elements of docs.ALTS_MERGE, objects over keys {a,b}"
    chk.outside += F.OUTSIDE
    chk.stubs += F.STUBS
    chk.require_goals(["conflict", "clean-two-sided", "nested-decision", "custom-conflict"])
    chk.assumptions += ["schema validation judges the model instance of each path (the schemas do not constrain value types)"]
    F.f16_witness(chk, known)
    return chk.finish()


if __name__ == "__main__":
    sys.exit(main())
