"""Harness family "process history" (C12).

A history is a sequence of operations on one freshly imported nbdime: notebook
diffs, notebook merges, generic diffs, ignore-configuration calls and resets,
chosen by E.choice.  The notebooks carry, at shared paths (/metadata/a and an
application/json output payload), a value whose shape is a list of ints, a
list of lists, a list of objects, an object or a scalar; leaves are symbolic.

Oracle: the result (or exception) of the last operation of the history must be
json_identical to its result in a *pristine* nbdime -- the package re-imported
into a fresh module set -- in which only the ignore options in force (the
configuration calls since the last reset) have been re-applied.
Counterexamples are additionally replayed against a fresh interpreter.
"""
import sys

from sx.values import json_identical, land
from gen import notebooks as G
from . import common

SHAPES = ["ints", "lol", "loo", "obj", "scalar"]


def fresh_nbdime():
    """Re-import the nbdime package into a fresh module set."""
    for k in list(sys.modules):
        if k == "nbdime" or k.startswith("nbdime."):
            del sys.modules[k]
    import nbdime  # noqa
    import nbdime.diffing.notebooks  # noqa
    import nbdime.merging.notebooks  # noqa
    common.install_stubs()
    from . import fam_nbmerge
    fam_nbmerge.install_env("git")


def shaped(x, shape, edit=0):
    """value of the given shape around leaf x; `edit` selects a variant with
    one more / changed item."""
    if shape == "ints":
        return [x, 2] if not edit else [x, 2, 3]
    if shape == "lol":
        return [[x], [2]] if not edit else [[x], [2], [3]]
    if shape == "loo":
        return [{"k": x}, {"k": 2}] if not edit else [{"k": x}, {"j": 2}]
    if shape == "obj":
        return {"k": x} if not edit else {"k": x, "j": 1}
    return x


def notebook(E, shape, tag, edit=0, src=0, symbolic=True):
    """Leaf economy: one symbolic int per notebook (used at all three shared
    paths) and only for the operation whose result is compared; earlier
    operations matter through their side effects, which depend on shapes and
    paths."""
    import nbformat
    x = E.int("v_%s" % tag) if symbolic else 7 + edit
    val = shaped(x, shape, edit)
    js = shaped(x, shape, edit)
    cell = {"cell_type": "code", "execution_count": 1 + edit, "metadata": {"a": shaped(x, shape, edit)},
            "source": G.SRC["A"][src],
            "outputs": [{"output_type": "display_data", "metadata": {},
                         "data": {"application/json": js, "text/plain": "<JSON>"}}]}
    nb = {"nbformat": 4, "nbformat_minor": 4, "metadata": {"a": val}, "cells": [cell]}
    return nbformat.from_dict(nb)


CONFIGS = [dict(metadata=False), dict(outputs=False), dict(details=False, sources=False), dict(),
           dict(identifier=False, details=False), dict(identifier=False)]
IGNORES = [{"/metadata": ["a"]}, {"/cells/*/outputs": True}, {"/metadata": False, "/cells/*/metadata": True}]


def op_space(kinds):
    """Enumerate operation descriptors."""
    ops = []
    n = len(SHAPES)
    if "diff" in kinds:
        for i in range(n):
            for j in range(n):
                ops.append(("diff", i, j))
    if "merge" in kinds:
        for i in range(n):
            for j in (range(n) if "allmerge" in kinds else (i, (i + 1) % n)):
                ops.append(("merge", i, j))
    if "gdiff" in kinds:
        for i in range(n):
            ops.append(("gdiff", i, (i + 1) % n))
    if "cfg" in kinds:
        for c in range(len(CONFIGS)):
            ops.append(("cfg", c, 0))
        for c in range(len(IGNORES)):
            ops.append(("ign", c, 0))
        ops.append(("reset", 0, 0))
    return ops


def run_op(E, op, tag, cache, symbolic=True):
    """Execute one operation on the currently imported nbdime.  Notebooks are
    built once per (op position) and reused between the two runs so both see
    the same symbolic leaves."""
    kind, i, j = op
    if kind in ("diff", "merge", "gdiff"):
        if tag not in cache:
            a = notebook(E, SHAPES[i], tag + "a", symbolic=symbolic)
            b = notebook(E, SHAPES[j], tag + "b", edit=1, src=1, symbolic=symbolic)
            cache[tag] = (a, b)
        a, b = cache[tag]
    if kind == "diff":
        from nbdime.diffing.notebooks import diff_notebooks
        return diff_notebooks(a, b)
    if kind == "gdiff":
        import nbdime
        return nbdime.diff(a["metadata"], b["metadata"]) if type(a["metadata"]["a"]) is type(b["metadata"]["a"]) \
            else nbdime.diff(a["cells"][0]["outputs"][0]["data"], b["cells"][0]["outputs"][0]["data"])
    if kind == "merge":
        from nbdime.merging.notebooks import merge_notebooks
        m, ds = merge_notebooks(a, b, a, None)
        return [m, [dict(d) for d in ds]]
    from nbdime.diffing import notebooks as nbs
    if kind == "cfg":
        nbs.set_notebook_diff_targets(**CONFIGS[i])
    elif kind == "ign":
        nbs.set_notebook_diff_ignores(dict(IGNORES[i]))
    elif kind == "reset":
        nbs.reset_notebook_differ()
    return None


def outcome(E, ops, cache, only_last_and_config):
    fresh_nbdime()
    if only_last_and_config:
        # the ignore options in force: reset_notebook_differ() clears them;
        # set_notebook_diff_targets() sets every category, so it replaces
        # whatever was in force (and with everything included nothing is
        # ignored); set_notebook_diff_ignores() adds to what is in force
        cfg = []
        for op in ops[:-1]:
            if op[0] == "reset":
                cfg = []
            elif op[0] == "cfg":
                cfg = [op] if CONFIGS[op[1]] else []
            elif op[0] == "ign":
                cfg.append(op)
        seq = [(o, None) for o in cfg] + [(ops[-1], len(ops) - 1)]
    else:
        seq = [(o, i) for i, o in enumerate(ops)]
    res = None
    for o, idx in seq:
        try:
            res = ("ok", run_op(E, o, "h%d" % (idx if idx is not None else 99), cache,
                                symbolic=(o is ops[-1])))
        except Exception as ex:  # noqa
            res = ("raised", "%s: %s" % (type(ex).__name__, str(ex)[:160]))
    return res


def watched_state():
    from nbdime.diffing import notebooks as nbs
    from nbdime.merging import generic as mg
    return dict(predicates=sorted(nbs.notebook_predicates.keys()), differs=sorted(nbs.notebook_differs.keys()),
                recursion=mg._merge_strings.recursion)


def make_history(first_kinds, k, last_kinds=("diff", "merge"), lo=0, hi=None, props=("C12",), known=(),
                 shadow_every=5):
    first = op_space(first_kinds)
    last = op_space(last_kinds)
    hi_ = len(first) if hi is None else hi

    def h(E):
        ops = []
        for p in range(k - 1):
            if p == 0:
                ops.append(first[lo + E.choice("op0", hi_ - lo)])
            else:
                ops.append(first[E.choice("op%d" % p, len(first))])
        ops.append(last[E.choice("last", len(last))])
        cache = {}
        full = outcome(E, ops, cache, False)
        state = watched_state()
        prist = outcome(E, ops, cache, True)
        E.nontrivial(any(o[0] in ("diff", "merge", "gdiff") for o in ops[:-1]))
        E.goal("history-with-earlier-diff-or-merge", any(o[0] in ("diff", "merge", "gdiff") for o in ops[:-1]))
        E.goal("history-with-config", any(o[0] in ("cfg", "ign") for o in ops[:-1]))
        E.goal("history-with-reset", any(o[0] == "reset" for o in ops[:-1]))
        E.goal("shape-change-at-shared-path", len(set(o[1] for o in ops if o[0] in ("diff", "merge"))) > 1)
        info = "history %r: after history %r, pristine %r; state %r" % (
            ops, full if full[0] == "raised" else "ok", prist if prist[0] == "raised" else "ok", state)
        E.check("same-outcome-kind-as-pristine", full[0] == prist[0], info=info)
        if full[0] == "raised":
            E.check("same-exception-as-pristine", full[1] == prist[1], info=info)
        else:
            E.check("same-result-as-pristine", json_identical(full[1], prist[1]), info=info)
    return h, dict(reset=None, shadow_every=shadow_every)


def reuse_pair(variant):
    """A = [X]; B = [Y1, Y2] with both sources approximately similar to X's;
    Y1's outputs are similar to X's, Y2's are not (variant 0), or the other
    way round (variant 1), or B has a single cell (variant 2)."""
    import nbformat

    def cell(src, text):
        return {"cell_type": "code", "execution_count": 1, "metadata": {}, "source": src,
                "outputs": [{"output_type": "stream", "name": "stdout", "text": text}]}
    base_src = G.SRC["A"][0]
    near = "x = 1\ny = 2\nw = 99\nz = 3\n"          # similarity ~0.83: neither strict nor dissimilar
    near2 = "x = 1\nv = 77\ny = 2\nz = 3\n"
    t0, t_sim, t_far = G.STREAM[0], G.STREAM[1], "entirely different output, nothing in common at all\n"
    if variant == 3:
        # format 4.5: the cells keep their ids, every source is rewritten
        # completely (paired by id alone: one patch per cell)
        far = ["import os\nprint(os.getcwd())\n", "def f(q):\n    return q ** 2\n"]
        ca, cb = [], []
        for n, (s0, s1) in enumerate(zip((base_src, near2), far)):
            c0, c1 = cell(s0, t0), cell(s1, t0)
            c0["id"] = c1["id"] = "kept-id-%d" % n
            ca.append(c0)
            cb.append(c1)
        A = {"nbformat": 4, "nbformat_minor": 5, "metadata": {}, "cells": ca}
        B = {"nbformat": 4, "nbformat_minor": 5, "metadata": {}, "cells": cb}
        return nbformat.from_dict(A), nbformat.from_dict(B)
    A = {"nbformat": 4, "nbformat_minor": 4, "metadata": {}, "cells": [cell(base_src, t0)]}
    if variant == 0:
        cells = [cell(near, t_sim), cell(near2, t_far)]
    elif variant == 1:
        cells = [cell(near, t_far), cell(near2, t_sim)]
    else:
        cells = [cell(near, t_far)]
    B = {"nbformat": 4, "nbformat_minor": 4, "metadata": {}, "cells": cells}
    return nbformat.from_dict(A), nbformat.from_dict(B)


def make_reuse(props=("C12",), known=()):
    """The same notebook *objects* are diffed twice in one process, with an
    ignore configuration in force the first time and none the second time
    (or the other way round).  The second result must equal what a pristine
    nbdime returns for it."""
    cfg_ops = [("cfg", i, 0) for i in range(len(CONFIGS))] + [("ign", i, 0) for i in range(len(IGNORES))]

    def h(E):
        variant = E.choice("pair", 4)
        E.goal("ids-kept-sources-rewritten-after-ids-were-ignored", variant == 3)
        first = cfg_ops[E.choice("first", len(cfg_ops))]
        undo = (("reset", 0, 0), ("cfg", 3, 0))[E.choice("undo", 2)]
        order = E.choice("order", 2)           # 0: configured diff first, 1: plain diff first then configured
        A, B = reuse_pair(variant)

        def do(op):
            return run_op(E, op, "x", {}, symbolic=False)
        fresh_nbdime()
        from nbdime.diffing import notebooks as nbs      # the freshly imported module set
        try:
            if order == 0:
                do(first)
                nbs.diff_notebooks(A, B)
                do(undo)
                full = ("ok", nbs.diff_notebooks(A, B))
            else:
                nbs.diff_notebooks(A, B)
                do(first)
                full = ("ok", nbs.diff_notebooks(A, B))
        except Exception as ex:  # noqa
            full = ("raised", "%s: %s" % (type(ex).__name__, str(ex)[:160]))
        fresh_nbdime()
        from nbdime.diffing import notebooks as nbs2
        try:
            if order == 1 and (first[0] != "cfg" or CONFIGS[first[1]]):
                run_op(E, first, "x", {}, symbolic=False)
            prist = ("ok", nbs2.diff_notebooks(A, B))
        except Exception as ex:  # noqa
            prist = ("raised", "%s: %s" % (type(ex).__name__, str(ex)[:160]))
        E.nontrivial(True)
        E.goal("same-objects-diffed-twice")
        info = "pair variant %d, first %r, undo %r, order %d; history %s pristine %s" % (
            variant, first, undo, order, full if full[0] == "raised" else "ok", prist if prist[0] == "raised" else "ok")
        E.check("same-outcome-kind-as-pristine", full[0] == prist[0], info=info)
        if full[0] == "ok" and prist[0] == "ok":
            E.check("second-diff-of-the-same-objects==pristine", json_identical(full[1], prist[1]), info=info)
    return h, dict(reset=None, shadow_every=5)


def _long_texts():
    l1 = "".join("line %d of a long captured output\n" % i for i in range(60))
    l2 = "".join(("line %d of a long captured output\n" % i) if i % 8 else ("completely other text %d\n" % i) for i in range(60))
    return l1, l2


def make_text_roles(props=("C12",), known=()):
    """The same two long texts (> 1000 characters, similarity between the
    approximate and the strict threshold) met in different ROLES by successive
    diffs of one process: as stream outputs (compared with a length cap), as
    text/plain data (another cap) and as cell sources (no cap).  The later
    diff must equal what a pristine nbdime returns for it."""
    ROLES = ("stream", "text/plain", "source")

    def h(E):
        import nbformat
        l1, l2 = _long_texts()

        def nb(role, t):
            c = {"cell_type": "code", "execution_count": 1, "metadata": {}, "source": "s = 1\n", "outputs": []}
            if role == "stream":
                c["outputs"] = [{"output_type": "stream", "name": "stdout", "text": t}]
            elif role == "text/plain":
                c["outputs"] = [{"output_type": "display_data", "metadata": {}, "data": {"text/plain": t}}]
            else:
                c["source"] = t
            return nbformat.from_dict({"nbformat": 4, "nbformat_minor": 4, "metadata": {}, "cells": [c]})
        r1 = ROLES[E.choice("earlier-role", 3)]
        r2 = ROLES[E.choice("later-role", 3)]
        fresh_nbdime()
        from nbdime.diffing import notebooks as nbs
        try:
            nbs.diff_notebooks(nb(r1, l1), nb(r1, l2))
            full = ("ok", nbs.diff_notebooks(nb(r2, l1), nb(r2, l2)))
        except Exception as ex:  # noqa
            full = ("raised", "%s: %s" % (type(ex).__name__, str(ex)[:160]))
        fresh_nbdime()
        from nbdime.diffing import notebooks as nbs2
        try:
            prist = ("ok", nbs2.diff_notebooks(nb(r2, l1), nb(r2, l2)))
        except Exception as ex:  # noqa
            prist = ("raised", "%s: %s" % (type(ex).__name__, str(ex)[:160]))
        E.nontrivial(r1 != r2)
        E.goal("same-long-texts-in-different-roles", r1 != r2)
        info = "texts of %d / %d characters first diffed as %s, then as %s" % (len(l1), len(l2), r1, r2)
        E.check("same-outcome-kind-as-pristine", full[0] == prist[0], info=info)
        if full[0] == "ok" and prist[0] == "ok":
            E.check("later-diff-of-the-same-texts-in-another-role==pristine", json_identical(full[1], prist[1]), info=info)
    return h, dict(reset=None, shadow_every=1)


def shards(tier, props, known):
    kw = dict(props=tuple(props), known=tuple(known))
    out = [("make_history", "hist1", dict(first_kinds=("diff",), k=1, **kw)),
           ("make_reuse", "reuse", dict(**kw)), ("make_text_roles", "text-roles", dict(**kw))]
    allk = ("diff", "merge", "gdiff", "cfg")
    n = len(op_space(allk))
    step = 8
    for lo in range(0, n, step):
        out.append(("make_history", "hist2-%d" % lo, dict(first_kinds=allk, k=2, lo=lo, hi=min(n, lo + step), **kw)))
    if tier == "thorough":
        kinds3 = ("diff", "cfg")
        n3 = len(op_space(kinds3))
        for lo in range(0, n3, 3):
            out.append(("make_history", "hist3-%d" % lo,
                        dict(first_kinds=kinds3, k=3, last_kinds=("diff",), lo=lo, hi=min(n3, lo + 3), **kw)))
    else:
        n3 = len(op_space(("cfg",)))
        for lo in range(0, n3, 2):
            out.append(("make_history", "hist3cfg-%d" % lo,
                        dict(first_kinds=("cfg",), k=3, last_kinds=("diff",), lo=lo, hi=min(n3, lo + 2), **kw)))
    return out
