"""Harness family "terminal rendering" (C16; C13 rides on it).

Objects: generated notebooks, notebook diffs (diff_notebooks of generated
pairs) and merge decisions (decide_notebook_merge of generated triples);
configuration: the six include flags of PrettyPrintConfig, use_color,
color_words, and the renderer for multi-line text diffs (git / diff / built-in
difflib, selected by stubbing `which` in nbdime.prettyprint; the real
subprocesses run).  Output goes to a StringIO.

The one whitelisted concretisation of sx lives here: when the renderer formats
a symbolic leaf (%s, %d, pprint) the proxy yields the text of its current
model value (Engine(allow_render=True)); branching on leaf truthiness still
forks, and the shadow run re-checks each path concretely.
"""
import argparse
import io

from sx.values import json_identical, unchanged, snapshot
from gen import notebooks as G
from oracles.category import CATEGORIES, categories, entries_with_paths
from . import common, fam_nbdiff, fam_nbmerge

RENDERERS = ("git", "diff", "difflib")


def install_renderer(name):
    import nbdime.prettyprint as pp
    import shutil

    # "git+colorui": git as the renderer on a machine whose git configuration
    # says color.ui = always (the environment form of `git config --global`)
    import os
    for k_ in ("GIT_CONFIG_COUNT", "GIT_CONFIG_KEY_0", "GIT_CONFIG_VALUE_0"):
        os.environ.pop(k_, None)
    if name == "git+colorui":
        os.environ.update(GIT_CONFIG_COUNT="1", GIT_CONFIG_KEY_0="color.ui", GIT_CONFIG_VALUE_0="always")

    def which(x, *a, **k):
        if name.startswith("git"):
            return shutil.which(x)
        if name == "diff":
            return None if x == "git" else shutil.which(x)
        return None if x in ("git", "diff", "diff3") else shutil.which(x)
    pp.which = which


def mk_config(E, lo=0, hi=64, colors=(0, 1), words=(0, 1)):
    from nbdime.prettyprint import PrettyPrintConfig
    mask = lo + (E.choice("include", hi - lo) if hi - lo > 1 else 0)
    inc = argparse.Namespace(**{c: bool(mask >> i & 1) for i, c in enumerate(CATEGORIES)})
    use_color = bool(colors[E.choice("color", len(colors))] if len(colors) > 1 else colors[0])
    cw = bool(words[E.choice("words", len(words))] if len(words) > 1 else words[0])
    out = io.StringIO()
    cfg = PrettyPrintConfig(out=out, include=inc, color_words=cw, use_color=use_color)
    ignored = [c for c in CATEGORIES if not getattr(inc, c)]
    return cfg, out, ignored, use_color


def demands_output(diff, ignored):
    """Does the diff contain a leaf entry none of whose categories is ignored?
    ('details' = everything not covered by the other options.)"""
    ig = set(ignored)
    for p, e in entries_with_paths(diff):
        if e["op"] == "patch":
            continue
        c = categories(p) or {"details"}
        if p[:1] == ("cells",) and len(p) == 2:
            continue        # whole cells inserted / removed: printed subject to the flags of their parts
        if not (c & ig):
            return "/" + "/".join(str(x) for x in p)
    return None


def _marker_like_lines(nbs):
    n = 0
    for nb in nbs:
        for s_ in fam_nbmerge.source_lines(nb):
            n = max(n, sum(1 for ln in s_.splitlines() if ln.startswith("\\ No newline at end of file")))
    return n


def render_checks(E, what, fn, out, use_color, props, known=(), nbs=(), word_diff=False):
    try:
        fn()
    except Exception as ex:  # noqa
        import traceback
        tb = traceback.extract_tb(ex.__traceback__)
        where = "%s:%d %s" % (tb[-1].filename.split("/nbdime/")[-1], tb[-1].lineno, tb[-1].name)
        sig = "%s: %s @ %s" % (type(ex).__name__, str(ex)[:160], where)
        # F12 is specific: git renderer in --color-words mode (content lines are
        # unprefixed there) and a text with >= 3 tool-message-looking lines
        if "F12" in known and word_diff and common.match_exception_finding(("F12",), sig) \
                and _marker_like_lines(nbs) >= 3:
            E.known("F12")
            return None
        if "C16" in props:
            E.fail("%s-raised" % what, sig)
        return None
    text = out.getvalue()
    if "C16" in props and not use_color:
        E.check("%s-no-ansi-without-colour" % what, "\x1b" not in text,
                info=repr(text[max(0, text.find("\x1b") - 30):text.find("\x1b") + 30]))
    return text


def _reverse_mapping_diffs(base, diff):
    from nbdime.diff_format import DiffEntry
    out = []
    for e in diff:
        if e["op"] == "patch":
            e2 = DiffEntry(e)
            sub = base[e["key"]]
            e2["diff"] = _reverse_mapping_diffs(sub, e["diff"]) if isinstance(sub, (dict, list)) else list(e["diff"])
            out.append(e2)
        else:
            out.append(e)
    if isinstance(base, dict):
        out.reverse()
    return out


def make_render_diff(templates, renderer="git", lo=0, hi=64, colors=(0, 1), words=(0,),
                     actions="ACTIONS_PAIR", extras=False, sym=("ec", "md"), props=("C16",), known=()):
    acts = getattr(fam_nbdiff, actions)

    def h(E):
        from nbdime.diffing.notebooks import diff_notebooks
        from nbdime.prettyprint import pretty_print_notebook_diff, pretty_print_notebook
        install_renderer(renderer)
        cfg, out, ignored, use_color = mk_config(E, lo, hi, colors, words)
        with_ids = E.choice("ids", 2)
        ctx = G.Ctx(E, bool(with_ids), sym=sym)
        base = G.base_notebook(ctx, templates)
        script = []
        for i, t in enumerate(templates):
            al = fam_nbdiff.actions_for(t, acts)
            if not with_ids:
                al = [x for x in al if x != "id"]
            script.append(al[E.choice("act%d" % i, len(al))])
        k = E.choice("ins", 3) if extras else 0
        ins = {0: "N2"} if k == 1 else ({len(templates): "Nm"} if k == 2 else {})
        nba = ("keep", "md_edit", "lang")[E.choice("nbact", 3)] if extras else "keep"
        B = G.derive(ctx, base, "l", script, ins, nba)
        a, b = G.finalize(base), G.finalize(B)
        d = diff_notebooks(a, b)
        c13 = "C13" in props
        if c13:
            sa, sd = snapshot(a), snapshot(d)
        E.nontrivial(len(d) > 0)
        E.goal("empty-diff", len(d) == 0)
        E.goal("nonempty-diff", len(d) > 0)
        text = render_checks(E, "diff", lambda: pretty_print_notebook_diff("a.ipynb", "b.ipynb", a, d, cfg),
                             out, use_color, props, known, (a, b),
                             word_diff=(renderer.startswith("git") and use_color and cfg.color_words))
        if text is None:
            return
        if "C16" in props:
            if len(d) == 0:
                E.check("empty-diff-prints-nothing", text == "", info=repr(text[:80]))
            else:
                p = demands_output(d, ignored)
                if p is not None:
                    # something beyond the three-line header
                    body = "\n".join(text.splitlines()[3:]).strip()
                    E.goal("visible-entry")
                    E.check("diff-touching-non-ignored-category-prints-something", bool(body),
                            info="entry at %s, ignored %r, output %r" % (p, ignored, text[:120]))
        if c13:
            E.check("render-leaves-notebook-unchanged", unchanged(a, sa))
            E.check("render-leaves-diff-unchanged", unchanged(d, sd))
            # the same diff with the entries of every object-level diff in the
            # opposite order (a valid diff: object entries are unordered)
            drev = _reverse_mapping_diffs(a, d)
            srev = snapshot(drev)
            cfg.out = io.StringIO()
            render_checks(E, "diff", lambda: pretty_print_notebook_diff("a.ipynb", "b.ipynb", a, drev, cfg),
                          cfg.out, use_color, props, known, (a, b))
            E.check("render-leaves-reordered-diff-unchanged", unchanged(drev, srev))
        # the notebook itself
        cfg2, out2, ignored2, use_color2 = cfg, io.StringIO(), ignored, use_color
        cfg.out = out2
        if c13:
            sb = snapshot(b)
        render_checks(E, "notebook", lambda: pretty_print_notebook(b, cfg), out2, use_color, props)
        if c13:
            E.check("render-leaves-shown-notebook-unchanged", unchanged(b, sb))
    return h, dict(reset=common.nbdime_reset, allow_render=True)


def make_render_decisions(idx, renderer="git", lo=0, hi=64, colors=(0, 1), words=(0,),
                          props=("C16",), known=()):
    tm, sl, sr, il, ir = fam_nbmerge.CONFLICT_SCRIPTS[idx]

    def h(E):
        from nbdime.merging.notebooks import decide_notebook_merge
        from nbdime.prettyprint import pretty_print_merge_decisions
        install_renderer(renderer)
        fam_nbmerge.install_env("git")
        install_renderer(renderer)
        cfg, out, ignored, use_color = mk_config(E, lo, hi, colors, words)
        ms = ("inline", "mergetool", "use-local")[E.choice("ms", 3)]
        with_ids = E.choice("ids", 2)
        ctx = G.Ctx(E, bool(with_ids), sym=("ec", "md"))
        base = G.base_notebook(ctx, tm)
        L = G.derive(ctx, base, "l", list(sl), dict(il), "keep")
        R = G.derive(ctx, base, "r", list(sr), dict(ir), "keep")
        b, l, r = G.finalize(base), G.finalize(L), G.finalize(R)
        ds = decide_notebook_merge(b, l, r, fam_nbmerge.mk_args(ms))
        E.nontrivial(len(ds) > 0)
        E.goal("decisions-rendered", len(ds) > 0)
        c13 = "C13" in props
        if c13:
            sb, sd = snapshot(b), snapshot([dict(x) for x in ds])
        text = render_checks(E, "decisions", lambda: pretty_print_merge_decisions(b, ds, cfg),
                             out, use_color, props)
        if text is not None and "C16" in props:
            E.check("decisions-print-summary-line", "conflicted decisions of" in text)
        if c13:
            E.check("render-leaves-base-unchanged", unchanged(b, sb))
            E.check("render-leaves-decisions-unchanged", unchanged([dict(x) for x in ds], sd))
    return h, dict(reset=common.nbdime_reset, allow_render=True)


def shards(tier, props, known, lite=False):
    kw = dict(props=tuple(props), known=tuple(known))
    out = []
    if lite and tier == "quick":
        for t in ["codeA", "codeRes2", "mdAtt", "codeEmp", "codeMime", "codeJobj"]:
            out.append(("make_render_diff", "rd-acts-git-%s-63" % t,
                        dict(templates=(t,), renderer="git", lo=63, hi=64, colors=(0,), words=(0,),
                             actions="ACTIONS_FULL", **kw)))
        for i in range(0, len(fam_nbmerge.CONFLICT_SCRIPTS), 3):
            out.append(("make_render_decisions", "rdec-%02d" % i,
                        dict(idx=i, renderer="difflib", lo=63, hi=64, colors=(0,), **kw)))
        return out
    singles = ["codeA", "codeRes2", "mdAtt", "codeDisp", "codeJobj", "codeErr"] if tier == "quick" \
        else fam_nbdiff.ALL_TEMPLATES
    # (a) every include subset x colour x renderer on a few scripts
    combos = [("git", "codeA"), ("diff", "mdAtt"), ("difflib", "codeRes2")]
    if tier == "thorough":
        combos = [(r, t) for r in RENDERERS for t in singles[:6]]
    for rnd, t in combos:
        for lo in range(0, 64, 16):
            out.append(("make_render_diff", "rd-flags-%s-%s-%d" % (rnd, t, lo),
                        dict(templates=(t,), renderer=rnd, lo=lo, hi=lo + 16, colors=(0, 1), words=(0, 1),
                             actions="ACTIONS_RENDER", sym=("ec",), **kw)))
    # (b) every action on every template under a few configurations
    for t in singles:
        for rnd, mask in (("git", 63), ("difflib", 63), ("diff", 21), ("git", 42)):
            out.append(("make_render_diff", "rd-acts-%s-%s-%d" % (rnd, t, mask),
                        dict(templates=(t,), renderer=rnd, lo=mask, hi=mask + 1, colors=(0, 1), words=(0,),
                             actions="ACTIONS_FULL", **kw)))
    for t in ("codeA", "mdAtt"):
        out.append(("make_render_diff", "rd-acts-gitcolorui-%s" % t,
                    dict(templates=(t,), renderer="git+colorui", lo=63, hi=64, colors=(0,), words=(0, 1),
                         actions="ACTIONS_RENDER", sym=("ec",), **kw)))
    for rnd in RENDERERS:
        out.append(("make_render_diff", "rd-patho-%s" % rnd,
                    dict(templates=("codeP",), renderer=rnd, lo=63, hi=64, colors=(0, 1), words=(0, 1),
                         actions="ACTIONS_FULL", sym=("ec",), **kw)))
    out.append(("make_render_diff", "rd-pair", dict(templates=("codeA", "mdAtt"), renderer="git", lo=63, hi=64,
                                                    colors=(0, 1), actions="ACTIONS_PAIR", extras=True,
                                                    sym=("ec",), **kw)))
    out.append(("make_render_diff", "rd-extras", dict(templates=("codeJobj",), renderer="difflib", lo=63, hi=64,
                                                      colors=(0, 1), actions="ACTIONS_RENDER", extras=True,
                                                      sym=("ec", "md", "json"), **kw)))
    # (c) merge decisions
    n = len(fam_nbmerge.CONFLICT_SCRIPTS)
    for i in range(n):
        rnd = RENDERERS[i % 3]
        out.append(("make_render_decisions", "rdec-%02d-%s" % (i, rnd),
                    dict(idx=i, renderer=rnd, lo=0 if tier == "thorough" else 48, hi=64, colors=(0, 1), **kw)))
    return out
