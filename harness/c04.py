"""C04 -- a merged notebook always validates against its declared notebook
format.

Same exploration as C03 (default-strategy script product; 40 conflict scripts
x the whole strategy product x 3 text-merge back ends), inputs asserted
schema-valid first.  Obligation on every feasible path: the model instance of
the merged notebook validates against nbformat's v4.<minor> schema for the
minor it declares (nbformat's own validator; each error reported with its
JSON path and validator keyword).  nbformat_minor of every input is symbolic
(0..4 without cell ids, 5 with ids), so pre-4.5 and 4.5 are inside every run;
schema validity depends on leaf *types* and on ids-vs-minor only, which are
fixed per path (assumption recorded).  Non-trivial = at least one decision.
"""
import sys

from . import c03

PROP = "C04"

if __name__ == "__main__":
    sys.exit(c03.main(PROP, __doc__, c03.GOALS + ["merged-has-marker-cells"]))
