"""Harness family "ignore options" (C14).

Ignored category set I (64 subsets) x delivery mode x per-category difference
pattern, all by E.choice; the values that realise a metadata / details
difference are symbolic leaves, so "differs" vs "coincides" is decided by the
solver on each path.

Delivery modes: positive flags and negative flags through the real nbdiff
argument parser + process_diff_flags; set_notebook_diff_targets; an 'Ignore'
mapping (docs/source/config.rst) through set_notebook_diff_ignores.
"""
from sx.values import json_identical, land, lnot, implies
from gen import notebooks as G
from oracles.category import CATEGORIES, hidden_entries, project
from oracles.refpatch import refpatch, RefPatchError
from . import common

FLAG = {"sources": "s", "outputs": "o", "attachments": "a", "metadata": "m", "id": "i", "details": "d"}
MODES = ("positive-flags", "negative-flags", "targets", "mapping")


def ignore_mapping(ignored):
    m = {}
    if "sources" in ignored:
        m["/cells/*/source"] = True
    if "outputs" in ignored:
        m["/cells/*/outputs"] = True
    if "attachments" in ignored:
        m["/cells/*/attachments"] = True
    if "metadata" in ignored:
        m["/metadata"] = True
        m["/cells/*/metadata"] = True
        m["/cells/*/outputs/*/metadata"] = True
    keys = []
    if "id" in ignored:
        keys.append("id")
    if "details" in ignored:
        keys.append("execution_count")
        m["/cells/*/outputs/*"] = ["execution_count"]
    if keys:
        m["/cells/*"] = keys
    return m


def deliver(mode, ignored):
    """Put the ignore options in force through the chosen interface.  Returns
    False when the mode cannot express this subset (then the path is skipped)."""
    from nbdime.diffing import notebooks as nbs
    nbs.reset_notebook_differ()
    if mode == "targets":
        nbs.set_notebook_diff_targets(**{("identifier" if c == "id" else c): (c not in ignored)
                                         for c in CATEGORIES})
        return True
    if mode == "mapping":
        nbs.set_notebook_diff_ignores(ignore_mapping(ignored))
        return True
    import nbdime.args as nargs
    from nbdime import nbdiffapp
    if mode == "positive-flags":
        keep = [c for c in CATEGORIES if c not in ignored]
        if not keep:
            return False
        flags = ["-" + FLAG[c] for c in keep]
    else:
        if not ignored:
            return False
        flags = ["-" + FLAG[c].upper() for c in CATEGORIES if c in ignored]
    saved = nargs.get_defaults_for_argparse
    nargs.get_defaults_for_argparse = lambda entrypoint: {}     # stub: no configuration files
    try:
        a = nbdiffapp._build_arg_parser().parse_args(flags + ["a.ipynb", "b.ipynb"])
    finally:
        nargs.get_defaults_for_argparse = saved
    nargs.process_diff_flags(a)
    return True


def build_pair(E, diffs, shape=0, sym=("ec", "md")):
    """A and B; diffs: dict category -> variant (0 = no difference).
    shape 0: code cell + markdown cell; shape 1: the code cell's source is
    EMPTY in A (the empty last cell one later types into); shape 2: a second
    code cell with outputs of its own between the two (cells of one type that
    can exchange ids; output differences then touch both code cells)."""
    ctx = G.Ctx(E, True, sym=sym)
    fam = "E" if shape == 1 else "A"
    code = G.mk_cell(ctx, dict(type="code", src=fam, outputs=["stream", "result_md"], md=1), "b0", idx=0)
    md = G.mk_cell(ctx, dict(type="markdown", src="M", md=1, att=True), "b1", idx=1)
    extra = x2 = None
    if shape == 2:
        extra = G.mk_cell(ctx, dict(type="code", src="B", outputs=["stream"], md=1), "b2", idx=2)
        x2 = dict(extra)
    A = G.mk_notebook(ctx, [code, extra, md] if extra is not None else [code, md], "b")
    c2, m2 = dict(code), dict(md)
    nbmd = dict(A["metadata"])
    if diffs["sources"]:
        c2["source"] = G.SRC[fam][1]
        if diffs["sources"] == 2:
            m2["source"] = G.SRC["M"][1]
    if x2 is not None and diffs["outputs"]:
        xo = list(extra["outputs"])
        if diffs["outputs"] == 1:
            o = dict(xo[0])
            o["text"] = G.STREAM[1]
            xo[0] = o
        else:
            xo = xo + [G.mk_output(ctx, "stderr", "x")]
        x2["outputs"] = xo
    if diffs["outputs"]:
        outs = list(code["outputs"])
        if diffs["outputs"] == 1:
            o = dict(outs[0])
            o["text"] = G.STREAM[1]
            outs[0] = o
        else:
            outs = outs + [G.mk_output(ctx, "stderr", "l")]
        c2["outputs"] = outs
    if diffs["attachments"] == 3:
        m2.pop("attachments", None)          # the cell loses its attachments key altogether
    elif diffs["attachments"]:
        m2["attachments"] = ({"pic.png": {"image/png": G.B64[1]}} if diffs["attachments"] == 1
                             else {"pic.png": {"image/png": G.B64[0]}, "new.png": {"image/png": G.B64[1]}})
    if diffs["metadata"] == 1:
        nbmd["nbk"] = ctx.md("l")
    elif diffs["metadata"] == 2:
        cm = dict(code["metadata"])
        cm["k0"] = ctx.md("l")
        c2["metadata"] = cm
    elif diffs["metadata"] == 3:
        outs = list(c2["outputs"])
        o = dict(outs[1])
        o["metadata"] = {"om": ctx.md("l")}
        outs[1] = o
        c2["outputs"] = outs
    elif diffs["metadata"] == 4:
        mm = dict(md["metadata"])
        mm["tags"] = ["x"]
        m2["metadata"] = mm
    if diffs["id"] == 3 and x2 is not None:
        c2["id"], x2["id"] = extra["id"], code["id"]   # the two code cells exchange their ids
    elif diffs["id"] == 3:
        c2["id"], m2["id"] = md["id"], code["id"]      # the two cells exchange their ids
    elif diffs["id"]:
        c2["id"] = "changed-id-0"
        if diffs["id"] == 2:
            m2["id"] = "changed-id-1"
    if diffs["details"] == 1:
        c2["execution_count"] = ctx.ec("l")
    elif diffs["details"] == 2:
        outs = list(c2["outputs"])
        o = dict(outs[1])
        o["execution_count"] = ctx.ec("l")
        outs[1] = o
        c2["outputs"] = outs
    B = dict(A)
    B["cells"] = [c2, x2, m2] if x2 is not None else [c2, m2]
    B["metadata"] = nbmd
    return G.finalize(A), G.finalize(B)


NVAR = {"sources": 3, "outputs": 3, "attachments": 4, "metadata": 5, "id": 4, "details": 3}


# difference variants explored on the special shapes (all others: no difference)
SHAPE_VARIANTS = {1: {"sources": (0, 1), "outputs": (0, 1), "metadata": (0, 2), "details": (0, 1)},
                  2: {"sources": (0, 1), "outputs": (0, 1, 2), "metadata": (0, 3), "details": (0, 1, 2), "id": (0, 3)}}


def make_ignore(mode, lo, hi, full=False, shape=0, props=("C14",), known=()):
    def h(E):
        from nbdime.diffing.notebooks import diff_notebooks, reset_notebook_differ
        mask = lo + E.choice("ignored", hi - lo)
        ignored = [c for i, c in enumerate(CATEGORIES) if mask >> i & 1]
        diffs = {}
        for c in CATEGORIES:
            if shape:
                vs = SHAPE_VARIANTS[shape].get(c, (0,))
                diffs[c] = vs[E.choice("d_" + c, len(vs))] if len(vs) > 1 else 0
            elif full or c in ("metadata", "details", "attachments"):
                diffs[c] = E.choice("d_" + c, NVAR[c])
            else:
                on = E.choice("d_" + c, 2)
                # variant rotates with the ignore mask so that all variants are met
                diffs[c] = 0 if not on else 1 + (mask + CATEGORIES.index(c)) % (NVAR[c] - 1)
        A, B = build_pair(E, diffs, shape)
        E.goal("empty-base-source-gets-text", shape == 1 and bool(diffs["sources"]) and "sources" in ignored)
        E.goal("code-cells-exchange-ids-and-differ-in-ignored-outputs",
               shape == 2 and diffs["id"] == 3 and bool(diffs["outputs"]) and "id" in ignored and "outputs" in ignored)
        try:
            if not deliver(mode, ignored):
                E.goal("mode-cannot-express-subset")
                return
            d = diff_notebooks(A, B)
        except Exception as ex:  # noqa
            E.fail("raised", "%s: %s (mode %s ignored %r)" % (type(ex).__name__, str(ex)[:160], mode, ignored))
            return
        finally:
            reset_notebook_differ()
        E.nontrivial(bool(ignored) and any(diffs.values()))
        E.goal("nonempty-diff-with-ignores", bool(ignored) and len(d) > 0)
        E.goal("empty-diff-with-differences", len(d) == 0 and any(diffs.values()))
        ctxinfo = "shape %d mode %s ignored %r differences %r" % (shape, mode, ignored, {k: v for k, v in diffs.items() if v})
        bad = hidden_entries(d, ignored)
        kbad = []
        for b in bad:
            fid = None
            for k in known:
                pass
            kbad.append(b)
        E.check("nothing-reported-inside-ignored-category", not kbad, info="%s: %s" % (ctxinfo, kbad[:3]))
        try:
            r = refpatch(A, d)
        except RefPatchError as ex:
            E.fail("refpatch-rejects-diff", "%s: %s" % (ctxinfo, ex))
            return
        E.check("patch-reproduces-target-in-non-ignored-parts",
                json_identical(project(r, ignored), project(B, ignored)), info=ctxinfo)
        if not diffs["sources"] and len(d) > 0:
            # differ only in ignored outputs/attachments/metadata/ids/details => empty diff
            E.check("only-ignored-differences=>empty-diff",
                    lnot(json_identical(project(A, ignored), project(B, ignored))), info=ctxinfo)
    return h, dict(reset=common.nbdime_reset)


KEYSPEC = [("/metadata", "kernelspec"), ("/metadata", "nbk"), ("/cells/*/metadata", "tags"),
           ("/cells/*/metadata", "k0"), ("/cells/*/outputs/*/metadata", "om")]


def make_ignore_keys(lo, hi, props=("C14",), known=()):
    """'Ignore' mappings whose values are key lists (config.rst: "for maps,
    you can additionally specify a list of keys to ignore"): every subset of
    five (path, key) pairs is ignored, every subset of them differs between A
    and B -- by replacement for scalar values, by an in-place change for the
    values that are containers (kernelspec object, tags list)."""
    def h(E):
        from nbdime.diffing import notebooks as nbs
        mask = lo + E.choice("ignored", hi - lo)
        ignored = [KEYSPEC[i] for i in range(len(KEYSPEC)) if mask >> i & 1]
        differs = [KEYSPEC[i] for i in range(len(KEYSPEC)) if E.choice("d%d" % i, 2)]
        ctx = G.Ctx(E, True, sym=("md",))
        code = G.mk_cell(ctx, dict(type="code", src="A", outputs=["result_md"], md=1, tags=["a", "b"]), "b0", idx=0)
        A = G.mk_notebook(ctx, [code], "b")
        c2 = dict(code)
        nbmd = dict(A["metadata"])
        cm = dict(code["metadata"])
        for path, key in differs:
            if key == "kernelspec":
                nbmd["kernelspec"] = dict(nbmd["kernelspec"], display_name="Python 3 (other)")
            elif key == "nbk":
                nbmd["nbk"] = ctx.md("l")
            elif key == "tags":
                cm["tags"] = list(cm["tags"]) + ["c"]
            elif key == "k0":
                cm["k0"] = ctx.md("l")
            else:
                outs = list(c2["outputs"])
                o = dict(outs[0])
                o["metadata"] = {"om": ctx.md("l")}
                outs[0] = o
                c2["outputs"] = outs
        c2["metadata"] = cm
        B = dict(A)
        B["cells"] = [c2]
        B["metadata"] = nbmd
        A, B = G.finalize(A), G.finalize(B)
        mapping = {}
        for path, key in ignored:
            mapping.setdefault(path, []).append(key)
        nbs.reset_notebook_differ()
        try:
            nbs.set_notebook_diff_ignores(mapping)
            d = nbs.diff_notebooks(A, B)
        except Exception as ex:  # noqa
            E.fail("raised", "%s: %s (mapping %r)" % (type(ex).__name__, str(ex)[:160], mapping))
            return
        finally:
            nbs.reset_notebook_differ()
        E.nontrivial(bool(ignored) and bool(differs))
        E.goal("key-list-ignore-with-in-place-change", any(k in ("kernelspec", "tags") for _, k in ignored)
               and any(k in ("kernelspec", "tags") for _, k in differs))
        info = "mapping %r differences %r" % (mapping, differs)

        def hidden(path):
            from oracles.category import star
            sp = "/" + "/".join(star(path[:-1]))
            return any(sp == p_ and path[-1] == k_ for p_, k_ in ignored)
        from oracles.category import entries_with_paths
        bad = []
        for pth, e in entries_with_paths(d):
            for cut in range(1, len(pth) + 1):
                if hidden(pth[:cut]):
                    bad.append("/" + "/".join(str(x) for x in pth))
                    break
        E.check("nothing-reported-under-an-ignored-key", not bad, info="%s: %s" % (info, bad[:3]))

        def proj(nb):
            out = dict(nb)
            out["metadata"] = {k: v for k, v in nb["metadata"].items() if ("/metadata", k) not in ignored}
            cells = []
            for c in nb["cells"]:
                c_ = dict(c)
                c_["metadata"] = {k: v for k, v in c["metadata"].items() if ("/cells/*/metadata", k) not in ignored}
                outs = []
                for o in c.get("outputs", []):
                    o_ = dict(o)
                    if "metadata" in o_:
                        o_["metadata"] = {k: v for k, v in o["metadata"].items()
                                          if ("/cells/*/outputs/*/metadata", k) not in ignored}
                    outs.append(o_)
                c_["outputs"] = outs
                cells.append(c_)
            out["cells"] = cells
            return out
        try:
            r = refpatch(A, d)
        except RefPatchError as ex:
            E.fail("refpatch-rejects-diff", "%s: %s" % (info, ex))
            return
        E.check("patch-reproduces-target-outside-ignored-keys", json_identical(proj(r), proj(B)), info=info)
        if len(d) > 0:
            E.check("only-ignored-keys-differ=>empty-diff", lnot(json_identical(proj(A), proj(B))), info=info)
    return h, dict(reset=common.nbdime_reset)


def make_ignore_multi(props=("C14",), known=()):
    """One `nbdiff <flags> REFA REFB` run over SEVERAL changed notebooks (git
    revisions; changed_notebooks stubbed to yield two pairs as streams): the
    ignore flags must still be in force for the later notebooks of the run.
    The JSON diff written with --out is that of the last pair.  Concrete
    leaves (the notebooks are serialised for the command)."""
    def h(E):
        import io
        import json
        import os
        import tempfile
        import nbdime.args as nargs
        from nbdime import nbdiffapp
        from nbdime.diffing.notebooks import reset_notebook_differ
        mask = E.choice("ignored", 64)
        ignored = [c for i, c in enumerate(CATEGORIES) if mask >> i & 1]
        positive = E.choice("positive-flags", 2)
        if positive:
            keep = [c for c in CATEGORIES if c not in ignored]
            if not keep:
                return
            flags = ["-" + FLAG[c] for c in keep]
        else:
            if not ignored:
                return
            flags = ["-" + FLAG[c].upper() for c in CATEGORIES if c in ignored]
        npairs = 2 + E.choice("pairs", 2)
        full = {"sources": 1, "outputs": 1, "attachments": 1, "metadata": 2, "id": 1, "details": 1}
        A, B = build_pair(E, full, 0, sym=())
        fd, out = tempfile.mkstemp(suffix=".json", prefix="vfc14")
        os.close(fd)

        def stream(nb, name):
            f = io.StringIO(json.dumps(nb))
            f.name = name
            return f
        saved = (nargs.get_defaults_for_argparse, nbdiffapp.is_gitref, nargs.is_gitref, nbdiffapp.changed_notebooks)
        nargs.get_defaults_for_argparse = lambda entrypoint: {}
        nbdiffapp.is_gitref = nargs.is_gitref = lambda c: c in ("REFA", "REFB")
        nbdiffapp.changed_notebooks = lambda base, remote, paths=None: iter(
            [(stream(A, "n%d.ipynb (REFA)" % i), stream(B, "n%d.ipynb (REFB)" % i)) for i in range(npairs)])
        try:
            try:
                a = nbdiffapp._build_arg_parser().parse_args(flags + ["--out", out, "REFA", "REFB"])
                status = nbdiffapp.main_diff(a)
                with open(out) as f:
                    d = json.load(f)
            except Exception as ex:  # noqa
                E.fail("nbdiff-run-raised", "%s: %s (flags %r)" % (type(ex).__name__, str(ex)[:160], flags))
                return
        finally:
            nargs.get_defaults_for_argparse, nbdiffapp.is_gitref, nargs.is_gitref, nbdiffapp.changed_notebooks = saved
            reset_notebook_differ()
            os.unlink(out)
        E.nontrivial(True)
        E.goal("several-notebooks-in-one-nbdiff-run")
        info = "nbdiff %s REFA REFB over %d changed notebooks: diff of the last one" % (" ".join(flags), npairs)
        E.check("nbdiff-run-succeeds", status == 0, info=info)
        bad = hidden_entries(d, ignored)
        E.check("later-notebooks-of-one-run-diffed-with-the-ignore-flags", not bad, info="%s reports %r" % (info, bad[:3]))
    return h, dict(reset=common.nbdime_reset)


def shards(tier, props, known):
    kw = dict(props=tuple(props), known=tuple(known))
    out = []
    step = 8
    for mode in MODES:
        for lo in range(0, 64, step):
            out.append(("make_ignore", "ign-%s-%d" % (mode, lo),
                        dict(mode=mode, lo=lo, hi=lo + step, full=(tier == "thorough" and mode in ("targets", "negative-flags")), **kw)))
    for shape in (1, 2):
        for mode in (("targets", "mapping") if tier == "quick" else MODES):
            for lo in range(0, 64, 16):
                out.append(("make_ignore", "ign-shape%d-%s-%d" % (shape, mode, lo), dict(mode=mode, lo=lo, hi=lo + 16, shape=shape, **kw)))
    out.append(("make_ignore_multi", "ign-multi", dict(**kw)))
    for lo in range(0, 32, 8):
        out.append(("make_ignore_keys", "ignkeys-%d" % lo, dict(lo=lo, hi=lo + 8, **kw)))
    return out
