"""./vcheck replay <file>: re-run a recorded counterexample on the real code
with plain Python values (concrete mode of the harness; no solver involved)."""
import importlib
import json
import sys

from sx import engine as eng
from . import common


def _tuplify(params):
    out = {}
    for k, v in params.items():
        out[k] = tuple(tuple(x) if isinstance(x, list) else x for x in v) if isinstance(v, list) else v
    return out


def main():
    common.silence_logging()
    path = sys.argv[1]
    rec = json.load(open(path))
    if rec.get("module") == "xh.conditions" and rec.get("call"):
        mod = importlib.import_module("xh.conditions")
        try:
            ok = eval(rec["call"], dict(vars(mod)))
        except Exception as ex:  # noqa
            ok = "raised %s: %s" % (type(ex).__name__, ex)
        print("crosshair counterexample:", rec["call"], "->", ok)
        print("REPRODUCED" if ok is not True else "NOT REPRODUCED")
        return 1 if ok is not True else 0
    mod = importlib.import_module(rec["module"])
    made = getattr(mod, rec["factory"])(**_tuplify(rec["params"]))
    h, opts = made if isinstance(made, tuple) else (made, {})
    e = eng.Engine(h, **opts)
    verbose = "-v" in sys.argv
    if verbose:
        common.VERBOSE_REPLAY = True
    r = e.run_concrete(rec["values"], rec["choices"])
    print("property:", rec.get("property"), " harness:", rec["module"], rec["factory"], rec.get("shard"))
    print("values:", rec["values"])
    print("choices:", rec["choices"])
    for label, ok in r["checks"]:
        print("  %-50s %s" % (label, "ok" if ok else "FAILED"))
    if r["info"] is not None:
        print("info:", r["info"])
    for label, obj in r["obs"]:
        if verbose:
            print("observed %s: %s" % (label, json.dumps(obj, default=repr)[:3000]))
    failed = [l for l, ok in r["checks"] if not ok]
    print("REPRODUCED" if failed else "NOT REPRODUCED")
    return 1 if failed else 0


if __name__ == "__main__":
    sys.exit(main())
