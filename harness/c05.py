"""C05 -- merge obeys identity, one-sided adoption, agreement and side symmetry.

Generic JSON (real decide_merge + apply_decisions, symbolic leaves) and
notebooks (real merge_notebooks).  On every feasible path z3 decides:

  L1 identity    M(b,b,b) == b         L2/L3 adoption  M(b,x,b) == x == M(b,b,x)
  L4 agreement   M(b,x,x) == x         none of L1-L4 has a conflicted decision
  L5 symmetry    unless diff(b,l) and diff(b,r) both contain an addrange at
                 one list position (the property's proviso, evaluated on the
                 real diffs of the path):
                 conflicted(M(b,l,r)) == conflicted(M(b,r,l)), and when
                 neither is conflicted the merged documents are
                 json_identical.

'==' is JSON identity decided by the solver for all leaf values on the path.
Non-trivial = the merge produced at least one decision.
"""
import sys

from sx import runner
from . import common, fam_merge

PROP = "C05"
GENERIC_STRATS = {"quick": ("none", "use-local", "union@paths"),
                  "thorough": ("none", "use-base", "use-local", "use-remote", "union", "clear", "mergetool",
                               "union@paths", "use-remote@paths", "clear@paths")}


def witness_F16():
    from sx.values import py_equal, json_identical, land, lnot

    def h(E):
        l, r = E.scalar("l"), E.scalar("r")
        E.assume(land(py_equal(l, r), lnot(json_identical(l, r))))
        m1, d1 = fam_merge.merge({}, {"a": l}, {"a": r}, "none")
        m2, d2 = fam_merge.merge({}, {"a": r}, {"a": l}, "none")
        c1, c2 = fam_merge.conflicted(d1), fam_merge.conflicted(d2)
        E.check("symmetry-conflict-verdict", c1 == c2)
        if not c1:
            E.check("symmetry-merged-identical", json_identical(m1, m2))
    return h, dict(reset=common.nbdime_reset)


def main():
    common.silence_logging()
    t = common.tier()
    known = common.known_findings(PROP)
    kn = tuple(sorted(known))
    chk = common.Check(PROP, __doc__)
    r = runner.explore("harness.fam_merge",
                       fam_merge.law_shards(t, (PROP,), kn, GENERIC_STRATS[t]),
                       nproc=common.nproc(), budget_s=300 if t == "quick" else 1800)
    chk.add("generic-laws", r)
    r = runner.explore("harness.fam_merge", fam_merge.triple_shards(t, (PROP,), kn),
                       nproc=common.nproc(), budget_s=400 if t == "quick" else 2400)
    chk.add("generic-symmetry", r)
    from . import fam_nbmerge as F
    r = runner.explore("harness.fam_nbmerge", F.nblaw_shards(t, (PROP,), kn), nproc=common.nproc(),
                       budget_s=400 if t == "quick" else 3000)
    chk.add("notebook-laws-and-symmetry", r)
    chk.bounds["notebook-laws"] = ("one-cell bases over %s templates x every action of X (17 code / 12 markdown) x "
                                   "<=1 insertion x notebook-level {keep, md_edit, minor} x ids on/off x CLI "
                                   "configurations %s; two-cell base(s) x 6 actions per cell" % (
                                       "8" if t == "quick" else "14",
                                       "inline / use-local / inline+use-local+remove" if t == "quick" else "7 (incl. mergetool)"))
    chk.bounds["notebook-symmetry"] = "one-cell bases (3 quick / 14 thorough) local x remote actions and insertion combinations; two-cell base x 6 actions; default strategy"
    chk.stubs += F.STUBS
    if "F16" in known:
        w = runner.explore_inline(witness_F16(), max_violations=1)
        if w.violations:
            v = w.violations[0]["values"]
            chk.known_finding("F16", "merge({}, {'a': %r}, {'a': %r}) is conflict-free but swapping the sides "
                              "changes the merged value's JSON type" % (v.get("l"), v.get("r")))
    chk.bounds["generic-laws"] = ("b, x lists of 0..%d symbolic ints; lists of 0..2 elements of docs.ALTS_MERGE "
                                  "(scalar, lists, object, two multi-line strings); objects over keys {a,b}; "
                                  "root strategies %s" % (3 if t == "quick" else 4, list(GENERIC_STRATS[t])))
    chk.bounds["generic-symmetry"] = ("triples of lists of 0..3 symbolic ints%s; triples of lists of 0..2 ALTS_MERGE "
                                      "elements%s; triples of objects over keys {a,b}" % (
                                          " (total length <= 7)" if t == "quick" else "",
                                          " (total length <= 4)" if t == "quick" else ""))
    chk.outside += ["longer lists / deeper nesting", "string contents outside the pools"]
    chk.require_goals(["law-with-decisions", "symmetry-clean", "symmetry-proviso-excluded", "conflict"])
    chk.assumptions += ["the symmetry proviso is evaluated on nbdime's own diffs of the path",
                        "open known findings excluded: %s" % ", ".join(kn)]
    if True:
        from . import xh_cross
        xh_cross.run(chk, ["adoption", "agreement"], PROP)
        chk.assumptions.append("CrossHair (E1) conditions are a cross-check by a second engine on List[int] inputs with symbolic "
                               "lengths <= 3; only 'Confirmed over all paths' counts as agreement; its timeouts do not affect the verdict")
    return chk.finish()


if __name__ == "__main__":
    sys.exit(main())
