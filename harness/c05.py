"""C05 -- merge obeys identity, one-sided adoption, agreement and side symmetry.

Generic JSON (real decide_merge + apply_decisions, symbolic leaves) and
notebooks (real merge_notebooks).  On every feasible path z3 decides:

  L1 identity    M(b,b,b) == b         L2/L3 adoption  M(b,x,b) == x == M(b,b,x)
  L4 agreement   M(b,x,x) == x         none of L1-L4 has a conflicted decision
  L5 symmetry    unless diff(b,l) and diff(b,r) both contain an addrange at
                 one list position (the property's proviso, evaluated on the
                 real diffs of the path):
                 conflicted(M(b,l,r)) == conflicted(M(b,r,l)), and when
                 neither is conflicted the merged documents are
                 json_identical.

'==' is JSON identity decided by the solver for all leaf values on the path.
Non-trivial = the merge produced at least one decision.
"""
import sys

from sx import runner
from . import common, fam_merge

PROP = "C05"
GENERIC_STRATS = {"quick": ("none", "use-local", "use-base"),
                  "thorough": ("none", "use-base", "use-local", "use-remote", "union", "clear", "mergetool")}


def main():
    common.silence_logging()
    t = common.tier()
    known = common.known_findings(PROP)
    kn = tuple(sorted(known))
    chk = common.Check(PROP, __doc__)
    r = runner.explore("harness.fam_merge",
                       fam_merge.law_shards(t, (PROP,), kn, GENERIC_STRATS[t]),
                       nproc=common.nproc(), budget_s=300 if t == "quick" else 1800)
    chk.add("generic-laws", r)
    r = runner.explore("harness.fam_merge", fam_merge.triple_shards(t, (PROP,), kn),
                       nproc=common.nproc(), budget_s=400 if t == "quick" else 2400)
    chk.add("generic-symmetry", r)
    from . import fam_nbmerge
    fam_nbmerge.add_parts(chk, PROP, t, kn)
    chk.bounds["generic-laws"] = ("b, x lists of 0..%d symbolic ints; lists of 0..2 elements of docs.ALTS_MERGE "
                                  "(scalar, lists, object, two multi-line strings); objects over keys {a,b}; "
                                  "root strategies %s" % (3 if t == "quick" else 4, list(GENERIC_STRATS[t])))
    chk.bounds["generic-symmetry"] = ("triples of lists of 0..3 symbolic ints%s; triples of lists of 0..2 ALTS_MERGE "
                                      "elements%s; triples of objects over keys {a,b}" % (
                                          " (total length <= 7)" if t == "quick" else "",
                                          " (total length <= 4)" if t == "quick" else ""))
    chk.outside += ["longer lists / deeper nesting", "string contents outside the pools"]
    chk.require_goals(["law-with-decisions", "symmetry-clean", "symmetry-proviso-excluded", "conflict"])
    chk.assumptions += ["the symmetry proviso is evaluated on nbdime's own diffs of the path",
                        "open known findings excluded: %s" % ", ".join(kn)]
    return chk.finish()


if __name__ == "__main__":
    sys.exit(main())
