"""Harness family "git integration set-up" (C18, narrow claim).

The four `config --enable / --disable` commands of nbdime's git integration
(diff driver, merge driver, difftool, mergetool) and `nbdime config-git` are
run through their real `main()` functions.  `git config` -- the only thing
they talk to besides the attributes file -- is replaced by a 40-line model of
a two-scope key/value store (`GitConfigModel`: set, get with local-over-global
lookup, --unset, --remove-section, exit statuses as documented in
git-config(1)).  The *values* already present in the user's configuration
(merge.tool, diff.guitool, the prompt settings, settings of other tools) are
symbolic strings (`SymName`): nbdime may only move them around and compare
them with literals such as "nbdime", so "a setting that points at another tool
is never altered" is decided by z3 for every tool name, including the case
that the unknown name *is* "nbdime".  The attributes files are real files in
temporary directories.

The model of `git config` is itself checked: on the concrete shadow run of a
path (and on every replay) the same command sequence is executed a second time
with nothing stubbed against the real `git` binary in a scratch HOME and
repository, and the resulting configuration and attributes bytes must equal
the model's.
"""
import io
import os
import re
import shutil
import subprocess
import tempfile
from subprocess import CalledProcessError

from sx.values import SymToken, SymBool, land, lor, lnot
from sx.engine import Inconclusive
from . import common

STUBS = os.path.join(common.VERIF, "stubs")


def _ensure_importable():
    import sys
    try:
        import jupyter_server  # noqa
    except ImportError:
        if STUBS not in sys.path:
            sys.path.append(STUBS)


def same(a, b):
    """Equality of two configuration values (str or symbolic name)."""
    if a is None or b is None:
        return a is None and b is None
    if isinstance(a, SymToken):
        return a == b
    if isinstance(b, SymToken):
        return b == a
    return a == b


class _Out(object):
    """What check_output returns: supports .decode(...).strip() only."""

    def __init__(self, v):
        self.v = v

    def decode(self, *a, **k):
        return self

    def strip(self):
        return self.v


class GitConfigModel(object):
    """`git config` over two scopes (git-config(1)): a write without scope
    option goes to the repository file; a read without scope option sees the
    repository value if set, else the global one; --unset of a missing key
    exits 5; --remove-section of a missing section exits 128; a plain get of a
    missing key exits 1."""

    def __init__(self, local, glob):
        self.s = {"local": dict(local), "global": dict(glob)}
        self.log = []

    def snapshot(self):
        return {sc: dict(d) for sc, d in self.s.items()}

    def run(self, argv, want_output):
        argv = list(argv)
        if argv[:2] != ["git", "config"]:
            raise Inconclusive("git-config model: unexpected command %r" % (argv,))
        a = argv[2:]
        scope = None
        if a and a[0] in ("--global", "--local"):
            scope = a[0][2:]
            a = a[1:]
        if a and a[0] == "--get" and len(a) == 2:
            a = a[1:]            # `git config --get name` == `git config name`
        elif a and a[0].startswith("--") and a[0] not in ("--unset", "--remove-section"):
            raise Inconclusive("git-config model: unsupported option %r" % (a[0],))
        self.log.append((scope, tuple(x if isinstance(x, str) else "<sym>" for x in a)))
        wscope = scope or "local"
        if a and a[0] == "--unset":
            if len(a) != 2:
                raise Inconclusive("git-config model: %r" % (a,))
            if a[1] not in self.s[wscope]:
                raise CalledProcessError(5, argv)
            del self.s[wscope][a[1]]
            return _Out("")
        if a and a[0] == "--remove-section":
            if len(a) != 2:
                raise Inconclusive("git-config model: %r" % (a,))
            ks = [k for k in self.s[wscope] if k.rsplit(".", 1)[0] == a[1]]
            if not ks:
                raise CalledProcessError(128, argv)
            for k in ks:
                del self.s[wscope][k]
            return _Out("")
        if len(a) == 1:
            order = [scope] if scope else ["local", "global"]
            for sc in order:
                if a[0] in self.s[sc]:
                    return _Out(self.s[sc][a[0]])
            raise CalledProcessError(1, argv)
        if len(a) == 2:
            self.s[wscope][a[0]] = a[1]
            return _Out("")
        raise Inconclusive("git-config model: %r" % (a,))


# ------------------------------------------------------------ the commands
# (tool, action, extra flags)
COMMANDS = [
    ("diffdriver", "enable", ()), ("diffdriver", "disable", ()),
    ("mergedriver", "enable", ()), ("mergedriver", "disable", ()),
    ("difftool", "enable", ()), ("difftool", "enable", ("--set-default",)), ("difftool", "disable", ()),
    ("mergetool", "enable", ()), ("mergetool", "enable", ("--set-default",)), ("mergetool", "disable", ()),
    ("all", "enable", ()), ("all", "disable", ()),
]

# what an enable may write (key -> predicate on the written text), per tool
EXPECT = {
    "diffdriver": {"diff.jupyternotebook.command": lambda v: v.startswith("git-nbdiffdriver")},
    "mergedriver": {"merge.jupyternotebook.driver": lambda v: v.startswith("git-nbmergedriver") and all(p in v for p in ("%O", "%A", "%B")),
                    "merge.jupyternotebook.name": lambda v: bool(v)},
    "difftool": {"difftool.nbdime.cmd": lambda v: v.startswith("git-nbdifftool") and "$LOCAL" in v and "$REMOTE" in v,
                 "difftool.prompt": lambda v: v == "false"},
    "mergetool": {"mergetool.nbdime.cmd": lambda v: v.startswith("git-nbmergetool") and all(p in v for p in ("$BASE", "$LOCAL", "$REMOTE", "$MERGED")),
                  "mergetool.prompt": lambda v: v == "false"},
}
DEFAULT_KEY = {"difftool": "diff.guitool", "mergetool": "merge.tool"}
DRIVER_SECTION = {"diffdriver": "diff.jupyternotebook", "mergedriver": "merge.jupyternotebook"}
ATTR_LINE = {"diffdriver": "*.ipynb\tdiff=jupyternotebook", "mergedriver": "*.ipynb\tmerge=jupyternotebook"}

ATTR_VARIANTS = [
    None,
    "*.py\tdiff=python\n*.png binary\n",
    "# rules\n*.c\tdiff=cpp",                                   # no final newline
    "*.txt text\n\n*.ipynb\tdiff=jupyternotebook\n\n*.ipynb\tmerge=jupyternotebook\n",
    "*.ipynb\tdiff=otherdriver merge=othermerge\n",
]


def tools_of(cmd):
    return ["diffdriver", "mergedriver", "difftool", "mergetool"] if cmd[0] == "all" else [cmd[0]]


def run_command(cmd, scope):
    """Through the real entry points, as the console scripts do."""
    tool, action, extra = cmd
    args = ["--" + action] + list(extra) + (["--global"] if scope == "global" else [])
    if tool == "all":
        from nbdime.__main__ import main_dispatch
        return main_dispatch(["config-git"] + args)
    import importlib
    mod = importlib.import_module("nbdime.vcs.git." + tool)
    return mod.main(["config"] + args)


class Sandbox(object):
    """Scratch HOME + repository; the process cwd and environment point into
    it while it is active."""

    def __init__(self, attr_local, attr_global, attrloc):
        self.td = tempfile.mkdtemp(prefix="vfc18")
        self.home = os.path.join(self.td, "home")
        self.repo = os.path.join(self.td, "repo")
        os.makedirs(self.home)
        os.makedirs(os.path.join(self.repo, ".git"))
        self.env = {"HOME": self.home, "GIT_CONFIG_NOSYSTEM": "1"}
        self.core_attr = None
        if attrloc == 1:
            self.env["XDG_CONFIG_HOME"] = os.path.join(self.td, "xdg")
            self.gattr = os.path.join(self.td, "xdg", "git", "attributes")
        elif attrloc == 2:
            self.gattr = os.path.join(self.home, "my attributes")
            self.core_attr = self.gattr
        else:
            self.gattr = os.path.join(self.home, ".config", "git", "attributes")
        self.lattr = os.path.join(self.repo, ".gitattributes")
        for path, text in ((self.lattr, attr_local), (self.gattr, attr_global)):
            if text is not None:
                os.makedirs(os.path.dirname(path), exist_ok=True)
                with io.open(path, "w", encoding="utf8", newline="") as f:
                    f.write(text)

    def __enter__(self):
        self.saved_cwd = os.getcwd()
        self.saved_env = {k: os.environ.get(k) for k in ("HOME", "GIT_CONFIG_NOSYSTEM", "XDG_CONFIG_HOME", "GIT_DIR", "GIT_WORK_TREE")}
        for k in ("XDG_CONFIG_HOME", "GIT_DIR", "GIT_WORK_TREE"):
            os.environ.pop(k, None)
        os.environ.update(self.env)
        os.chdir(self.repo)
        return self

    def __exit__(self, *a):
        os.chdir(self.saved_cwd)
        for k, v in self.saved_env.items():
            if v is None:
                os.environ.pop(k, None)
            else:
                os.environ[k] = v
        shutil.rmtree(self.td, ignore_errors=True)

    def attrs(self):
        out = {}
        for name, path in (("local", self.lattr), ("global", self.gattr)):
            if os.path.exists(path):
                with io.open(path, encoding="utf8", newline="") as f:
                    out[name] = f.read()
            else:
                out[name] = None
        return out


GIT_MODULES = ("nbdime.vcs.git.diffdriver", "nbdime.vcs.git.mergedriver", "nbdime.vcs.git.difftool",
               "nbdime.vcs.git.mergetool", "nbdime.utils")


class Patched(object):
    """check_call / check_output of the git integration modules -> model."""

    def __init__(self, model):
        self.model = model

    def __enter__(self):
        import importlib
        self.saved = []
        m = self.model

        def check_call(argv, *a, **k):
            m.run(argv, False)
            return 0

        def check_output(argv, *a, **k):
            return m.run(argv, True)
        for name in GIT_MODULES:
            mod = importlib.import_module(name)
            for attr, fn in (("check_call", check_call), ("check_output", check_output)):
                if attr in mod.__dict__:
                    self.saved.append((mod, attr, mod.__dict__[attr]))
                    mod.__dict__[attr] = fn
        return self

    def __exit__(self, *a):
        for mod, attr, val in self.saved:
            mod.__dict__[attr] = val


def _real_git_state(env_scope):
    out = {}
    for sc in ("local", "global"):
        try:
            txt = subprocess.check_output(["git", "config", "--" + sc, "--list", "-z"], stderr=subprocess.DEVNULL).decode("utf8")
        except CalledProcessError:
            txt = ""
        d = {}
        for item in txt.split("\0"):
            if not item:
                continue
            k, _, v = item.partition("\n")
            if k.startswith("core.") and k != "core.attributesfile":
                continue        # what `git init` writes
            d[k] = v
        out[sc] = d
    return out


def real_run(init, attr_local, attr_global, attrloc, seq):
    """The same sequence with nothing stubbed, against the real git binary.
    Returns (config per scope, attributes per scope) or a string (error)."""
    with Sandbox(attr_local, attr_global, attrloc) as sb:
        shutil.rmtree(os.path.join(sb.repo, ".git"))
        subprocess.check_call(["git", "init", "-q", "."], stdout=subprocess.DEVNULL, stderr=subprocess.DEVNULL)
        for sc in ("local", "global"):
            for k, v in init[sc].items():
                if k != "core.attributesfile":
                    subprocess.check_call(["git", "config", "--" + sc, k, v])
        if sb.core_attr:
            subprocess.check_call(["git", "config", "--global", "core.attributesfile", sb.core_attr])
        devnull = open(os.devnull, "w")
        import sys
        so, se = sys.stdout, sys.stderr
        fd2 = os.dup(2)          # git's own messages ("no such section")
        try:
            sys.stdout = sys.stderr = devnull
            os.dup2(devnull.fileno(), 2)
            for cmd, scope in seq:
                try:
                    run_command(cmd, scope)
                except SystemExit as ex:
                    if ex.code not in (0, None):
                        return "exit %r from %r" % (ex.code, cmd)
                except Exception as ex:  # noqa
                    return "%s from %r: %s" % (type(ex).__name__, cmd, ex)
        finally:
            os.dup2(fd2, 2)
            os.close(fd2)
            sys.stdout, sys.stderr = so, se
            devnull.close()
        return _real_git_state(None), sb.attrs()


def _added_lines_ok(before, after):
    """after = before + zero or more of nbdime's own attribute lines."""
    before = before or ""
    after = after or ""
    if not after.startswith(before):
        return False
    rest = after[len(before):]
    return re.fullmatch(r"(\n\*\.ipynb\t(diff|merge)=jupyternotebook\n)*", rest) is not None


def make_gitcfg(nsteps, mixed_scopes=False, full_init=True, props=("C18",), known=()):
    def h(E):
        _ensure_importable()
        # ---------------- the command sequence
        seq = []
        scope0 = ("local", "global")[E.choice("scope", 2)]
        for i in range(nsteps):
            cmd = COMMANDS[E.choice("cmd%d" % i, len(COMMANDS))]
            scope = scope0
            if mixed_scopes and i > 0:
                scope = ("local", "global")[E.choice("scope%d" % i, 2)]
            seq.append((cmd, scope))
        uses_global = any(sc == "global" for _, sc in seq)
        uses_local = any(sc == "local" for _, sc in seq)
        writes_attrs = any(c[1] == "enable" and c[0] in ("diffdriver", "mergedriver", "all") for c, _ in seq)
        touches_tools = any(c[0] in ("difftool", "mergetool", "all") for c, _ in seq)
        # ---------------- initial configuration (the user's, before nbdime)
        init = {"local": {}, "global": {}}
        slots = [(key, sc) for key in ("merge.tool", "diff.guitool") for sc in ("local", "global")]
        if touches_tools and full_init:
            present = [E.choice("has-%s-%s" % ks, 2) for ks in slots]          # 16 patterns
        elif touches_tools:
            pl, pg = E.choice("has-local", 2), E.choice("has-global", 2)        # 4 patterns
            present = [pl, pg, pl, pg]
        else:
            pa = E.choice("has-any", 2)                                         # none / all four
            present = [pa] * 4
        for n, ((key, sc), p) in enumerate(zip(slots, present)):
            if p:
                init[sc][key] = E.token("v%d" % n, literals=True)
        if full_init:
            init["local"]["difftool.prompt"] = E.token("p0", literals=True)
            init["local"]["mergetool.prompt"] = E.token("p1", literals=True)
            init["global"]["difftool.prompt"] = E.token("p2", literals=True)
        # settings of other tools, and a section whose name extends nbdime's
        init["local"]["difftool.meld.cmd"] = E.token("f0", literals=True)
        init["local"]["merge.other.driver"] = E.token("f1", literals=True)
        init["global"]["diff.jupyternotebook2.command"] = E.token("f2", literals=True)
        init["global"]["mergetool.kdiff3.path"] = E.token("f3", literals=True)
        # ---------------- attributes files
        if writes_attrs and full_init:
            variants = list(range(len(ATTR_VARIANTS)))
        else:
            variants = [0, 2]          # absent / unrelated rules without final newline
        attr_local = ATTR_VARIANTS[variants[E.choice("attr-local", len(variants))]] if uses_local else ATTR_VARIANTS[1]
        attr_global = ATTR_VARIANTS[variants[E.choice("attr-global", len(variants))]] if uses_global else None
        attrloc = E.choice("attrloc", 3) if (uses_global and writes_attrs and full_init) else 0

        real = None
        if not E.symbolic:
            # concrete run / replay: first the same sequence with nothing
            # stubbed against the real git binary; a failed obligation quotes
            # what real git ended with
            real = real_run({sc: dict(d) for sc, d in init.items()}, attr_local, attr_global, attrloc, seq)
            _NOTE[0] = " || the same sequence against the real git binary ended with: %r" % (real,)
        else:
            _NOTE[0] = ""
        with Sandbox(attr_local, attr_global, attrloc) as sb:
            if sb.core_attr:
                init["global"]["core.attributesfile"] = sb.core_attr
            model = GitConfigModel(init["local"], init["global"])
            with Patched(model):
                for step, (cmd, scope) in enumerate(seq):
                    tool, action, extra = cmd
                    tag = "%d:%s-%s%s@%s" % (step, tool, action, "+default" if extra else "", scope)
                    s0, a0 = model.snapshot(), sb.attrs()
                    rc = _call(cmd, scope)
                    E.check("command-succeeds", rc in (0, None), info="%s returned %r" % (tag, rc))
                    s1, a1 = model.snapshot(), sb.attrs()
                    _obligations(E, tag, cmd, scope, s0, a0, s1, a1)
                    # ---- idempotence: the same command again changes nothing
                    rc = _call(cmd, scope)
                    E.check("command-succeeds-again", rc in (0, None), info="%s returned %r" % (tag, rc))
                    s2, a2 = model.snapshot(), sb.attrs()
                    E.check("idempotent:config", _same_state(s1, s2), info="%s: second run changed the configuration: %r -> %r" % (tag, _show(s1), _show(s2)))
                    E.check("idempotent:attributes", a1 == a2, info="%s: second run changed the attributes: %r -> %r" % (tag, a1, a2))
                    E.goal("enable", action == "enable")
                    E.goal("disable", action == "disable")
                    E.goal("set-default", bool(extra))
                    E.goal("config-git", tool == "all")
            final_model = model.snapshot()
            final_attrs = sb.attrs()
            gattr_rel = os.path.relpath(sb.gattr, sb.td)
        E.nontrivial(any(init[sc].get(k) is not None for sc in ("local", "global") for k in ("merge.tool", "diff.guitool")))
        E.goal("global-scope", uses_global)
        E.goal("attributes-already-present", attr_local is not None)
        # ---- the model of `git config` against the real binary (concrete runs)
        if E.symbolic:
            E.check("git-config-model-agrees-with-real-git", True)
        else:
            r = real
            if isinstance(r, str):
                E.check("git-config-model-agrees-with-real-git", False, info="real run failed: " + r)
            else:
                rcfg, rattrs = r
                want = {sc: dict(d) for sc, d in final_model.items()}
                for sc in want:      # the scratch directories differ between the two runs
                    if "core.attributesfile" in want[sc]:
                        want[sc]["core.attributesfile"] = gattr_rel
                    if "core.attributesfile" in rcfg[sc]:
                        rcfg[sc]["core.attributesfile"] = gattr_rel
                E.check("git-config-model-agrees-with-real-git", rcfg == want and rattrs == final_attrs,
                        info="sequence %r: real git %r %r, model %r %r" % (seq, rcfg, rattrs, want, final_attrs))
    return h, dict(reset=None, shadow_every=1 if nsteps == 1 else 3)


_NOTE = [""]


class _Checked(object):
    """E with the real-git outcome appended to failure texts."""

    def __init__(self, E):
        self.E = E

    def check(self, label, P, info=None):
        return self.E.check(label, P, info=(info or "") + _NOTE[0])


def _call(cmd, scope):
    import sys
    devnull = open(os.devnull, "w")
    so, se = sys.stdout, sys.stderr
    try:
        sys.stdout = sys.stderr = devnull
        try:
            return run_command(cmd, scope)
        except SystemExit as ex:
            return ex.code
    finally:
        sys.stdout, sys.stderr = so, se
        devnull.close()


def _show(s):
    return {sc: {k: (v if isinstance(v, str) else "<sym>") for k, v in d.items()} for sc, d in s.items()}


def _same_state(s1, s2):
    conds = []
    for sc in ("local", "global"):
        if set(s1[sc]) != set(s2[sc]):
            return False
        for k in s1[sc]:
            conds.append(same(s1[sc][k], s2[sc][k]))
    return land(*conds)


def _obligations(E, tag, cmd, scope, s0, a0, s1, a1):
    E = _Checked(E)
    tool, action, extra = cmd
    tools = tools_of(cmd)
    other = "global" if scope == "local" else "local"
    # ---- the other scope is never written
    E.check("other-scope-untouched", _same_state({"local": s0[other], "global": {}}, {"local": s1[other], "global": {}}),
            info="%s changed the %s configuration: %r -> %r" % (tag, other, _show(s0)[other], _show(s1)[other]))
    E.check("other-scope-attributes-untouched", a0[other] == a1[other], info="%s: %r -> %r" % (tag, a0[other], a1[other]))
    # ---- attributes: existing content kept, only nbdime's lines added
    E.check("attributes-content-kept", _added_lines_ok(a0[scope], a1[scope]),
            info="%s: attributes %r -> %r" % (tag, a0[scope], a1[scope]))
    allowed = set()
    if action == "enable":
        for t in tools:
            allowed |= set(EXPECT[t])
        if extra:
            allowed.add(DEFAULT_KEY[tool])
    else:
        for t in tools:
            if t in DRIVER_SECTION:
                allowed |= {k for k in s0[scope] if k.rsplit(".", 1)[0] == DRIVER_SECTION[t]}
    b0, b1 = s0[scope], s1[scope]
    for k in sorted(set(b0) | set(b1)):
        if k in allowed:
            continue
        is_default = action == "disable" and any(DEFAULT_KEY.get(t) == k for t in tools)
        if is_default:
            # may only be removed when it pointed at nbdime
            if k in b0:
                kept = (k in b1) and same(b0[k], b1[k])
                E.check("default-tool-of-another-program-kept",
                        lor(same(b0[k], "nbdime"), kept),
                        info="%s: %s was set to a tool other than nbdime and is %s afterwards" % (
                            tag, k, "gone" if k not in b1 else "changed"))
                if k in b1:
                    E.check("default-tool-nbdime-removed", lnot(same(b1[k], "nbdime")),
                            info="%s: %s still points at nbdime" % (tag, k))
            else:
                E.check("foreign-setting-untouched", k not in b1, info="%s created %s" % (tag, k))
            continue
        E.check("foreign-setting-untouched", (k in b0) and (k in b1) and same(b0[k], b1[k]),
                info="%s: setting %s was %s" % (tag, k, "removed" if k not in b1 else ("added" if k not in b0 else "changed")))
    # ---- post-conditions
    if action == "enable":
        for t in tools:
            for k, pred in EXPECT[t].items():
                v = b1.get(k)
                E.check("enable-writes-" + k, isinstance(v, str) and pred(v), info="%s: %s = %r" % (tag, k, v))
            if t in ATTR_LINE:
                E.check("enable-attributes-line", a1[scope] is not None and ATTR_LINE[t].split("\t")[1] in a1[scope]
                        and (ATTR_LINE[t].split("\t")[1] in (a0[scope] or "") or ("\n" + ATTR_LINE[t] + "\n") in a1[scope]),
                        info="%s: attributes %r" % (tag, a1[scope]))
        if extra:
            v = b1.get(DEFAULT_KEY[tool])
            E.check("set-default-points-at-nbdime", isinstance(v, str) and v == "nbdime", info="%s: %r" % (tag, v))
        else:
            for t in tools:
                k = DEFAULT_KEY.get(t)
                if k:
                    E.check("default-tool-unchanged-without-set-default",
                            (k in b0) == (k in b1) and (k not in b0 or same(b0[k], b1[k])), info="%s: %s" % (tag, k))
    else:
        for t in tools:
            if t in DRIVER_SECTION:
                left = [k for k in b1 if k.rsplit(".", 1)[0] == DRIVER_SECTION[t]]
                E.check("disable-removes-driver", not left, info="%s: still configured: %r" % (tag, left))


def shards(tier, props, known):
    kw = dict(props=tuple(props), known=tuple(known))
    out = [("make_gitcfg", "one-command", dict(nsteps=1, mixed_scopes=False, full_init=True, **kw)),
           ("make_gitcfg", "two-commands", dict(nsteps=2, mixed_scopes=False, full_init=False, **kw))]
    if tier != "quick":
        out.append(("make_gitcfg", "two-commands-mixed-scopes", dict(nsteps=2, mixed_scopes=True, full_init=False, **kw)))
        out.append(("make_gitcfg", "three-commands", dict(nsteps=3, mixed_scopes=False, full_init=False, **kw)))
    return out
