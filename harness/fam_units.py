"""Unit harnesses over arbitrary valid pre-states (C11, also used by C02/C13
cross-checks): diff_from_lcs and SequenceDiffBuilder.append."""
import z3

from sx.values import json_identical, land, lnot, implies, SymBool
from oracles.refpatch import refpatch, RefPatchError
from oracles.wellformed import wellformed
from . import common


def make_lcs(n, m, k, props=("C11",), known=()):
    """A, B lists of symbolic ints of length n, m; Ai, Bi arbitrary strictly
    increasing in-range index lists of length k chosen by E.choice;
    A[Ai[r]] == B[Bi[r]] assumed."""
    import itertools
    combs_a = list(itertools.combinations(range(n), k))
    combs_b = list(itertools.combinations(range(m), k))

    def h(E):
        from nbdime.diffing.lcs import diff_from_lcs
        A = [E.int("a%d" % i) for i in range(n)]
        B = [E.int("b%d" % i) for i in range(m)]
        Ai = list(combs_a[E.choice("Ai", len(combs_a))])
        Bi = list(combs_b[E.choice("Bi", len(combs_b))])
        for x, y in zip(Ai, Bi):
            E.assume(A[x] == B[y])
        d = diff_from_lcs(A, B, Ai, Bi)
        E.nontrivial(len(d) > 0)
        E.goal("lcs-nonempty", len(d) > 0 and k > 0)
        errs = wellformed(d, A)
        E.check("lcs-diff-wellformed", not errs, info=errs[:3])
        try:
            r = refpatch(A, d)
        except RefPatchError as ex:
            E.fail("lcs-diff-rejected", str(ex))
            return
        E.check("lcs-diff-patches-A-to-B", json_identical(r, B))
    return h, {}


OPS = ("addrange", "removerange", "patch")


def make_append(npre, props=("C11",), known=()):
    """SequenceDiffBuilder with an arbitrary well-ordered pre-state of npre
    entries (keys symbolic, ops by choice) + one arbitrary appended entry: the
    result must be the pre-state with the entry inserted, ordered by key with
    addrange first among equal keys, earlier entries keeping their relative
    order (one inductive step of the ordering invariant)."""
    def h(E):
        from nbdime.diff_format import SequenceDiffBuilder, DiffEntry
        b = SequenceDiffBuilder()
        pre = []
        for i in range(npre):
            op = OPS[E.choice("op%d" % i, 3)]
            key = E.int("k%d" % i, lo=0)
            pre.append(DiffEntry(op=op, key=key, tag=i))
        # invariant on the pre-state: sorted by (key, addrange-first)
        for x, y in zip(pre, pre[1:]):
            E.assume(x.key <= y.key)
            if y.op == "addrange" and x.op != "addrange":
                E.assume(x.key < y.key)
        b._diff = list(pre)
        op = OPS[E.choice("op", 3)]
        new = DiffEntry(op=op, key=E.int("k", lo=0), tag="new")
        b.append(new)
        out = b.validated()
        E.nontrivial(True)
        pos = [i for i, e in enumerate(out) if e is new]
        E.check("append-inserts-once", len(pos) == 1 and len(out) == npre + 1)
        if len(pos) != 1:
            return
        E.goal("append-mid", 0 < pos[0] < npre)
        rest = [e for e in out if e is not new]
        E.check("append-keeps-earlier-order", all(x is y for x, y in zip(rest, pre)))
        ok = True
        for x, y in zip(out, out[1:]):
            c = x.key <= y.key
            if y.op == "addrange" and x.op != "addrange":
                c = x.key < y.key
            ok = land(ok, c)
        E.check("append-keeps-ordering-invariant", ok)
    return h, {}


def shards(tier, props, known):
    kw = dict(props=tuple(props), known=tuple(known))
    out = []
    N = 3 if tier == "quick" else 4
    for n in range(N + 1):
        for m in range(N + 1):
            for k in range(min(n, m) + 1):
                out.append(("make_lcs", "lcs-%d-%d-%d" % (n, m, k), dict(n=n, m=m, k=k, **kw)))
    for npre in range(0, 4 if tier == "quick" else 5):
        out.append(("make_append", "append-%d" % npre, dict(npre=npre, **kw)))
    return out


BOUNDS = {
    "quick": {"diff_from_lcs": "lists of 0..3 symbolic ints, every strictly increasing index pair list",
              "SequenceDiffBuilder.append": "pre-states of 0..3 entries with symbolic keys, every op combination"},
    "thorough": {"diff_from_lcs": "lists of 0..4 symbolic ints, every strictly increasing index pair list",
                 "SequenceDiffBuilder.append": "pre-states of 0..4 entries with symbolic keys, every op combination"},
}
