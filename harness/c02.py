"""C02 -- generic JSON diff -> patch round trip is exact, value types included.

For documents a, b of the same container type built by gen/docs.py (shapes by
E.choice, every scalar leaf a SymScalar with symbolic JSON type tag and value)
the real nbdime.diff / nbdime.patch are executed symbolically and, on every
feasible path, z3 decides for all leaf values on that path:

  O0  nbdime.diff(a, b) does not raise
  O1  json_identical(refpatch(a, d), b)       independent reference patcher,
      strict about the documented format (an op the format does not define,
      an out-of-range key or a doubly targeted item is a violation)
  O2  json_identical(nbdime.patch(a, d), b)   nbdime's own patcher
  O3  d == []  =>  json_identical(a, b)

json_identical is JSON identity: same structure, leaves equal and of the same
JSON type (True != 1 != 1.0).  Strings: every ordered pair of the designed
pool through the same obligations (enumeration over the pool -- string content
is not symbolic; labelled so).  A path is non-trivial when its diff is
non-empty.
"""
import sys

from sx import runner
from . import common, fam_diff

PROP = "C02"


def witness_F1():
    from sx.values import py_equal, json_identical, land, lnot

    def h(E):
        a = [E.scalar("a0")]
        b = [E.scalar("b0")]
        E.assume(land(py_equal(a[0], b[0]), lnot(json_identical(a[0], b[0]))))
        fam_diff.roundtrip(E, a, b, ("C02",), ())
    return h, dict(reset=common.nbdime_reset)


def main(prop=PROP, doc=__doc__):
    common.silence_logging()
    t = common.tier()
    known = common.known_findings(prop)
    chk = common.Check(prop, doc)
    shards = fam_diff.shards(t, (prop,), tuple(sorted(known)))
    r = runner.explore("harness.fam_diff", shards, nproc=common.nproc(),
                       budget_s=420 if t == "quick" else 3000)
    chk.add("generic-diff-patch", r)
    chk.bounds.update(fam_diff.BOUNDS[t])
    chk.outside += fam_diff.OUTSIDE
    chk.require_goals(["nonempty-diff", "empty-diff", "nested-patch"])
    chk.assumptions += [
        "oracles refpatch / json_identical are written from docs/source/diffing.rst and never call nbdime",
        "open known findings are excluded as solver assumptions on the inputs: %s" % ", ".join(sorted(known)),
    ]
    if prop == "C02" and "F1" in known:
        w = runner.explore_inline(witness_F1())
        if w.violations:
            chk.known_finding("F1", "diff(%r, %r) drops the JSON type change: %s" % (
                [w.violations[0]["values"]["a0"]], [w.violations[0]["values"]["b0"]],
                w.violations[0]["label"]))
    if True:
        from . import xh_cross
        xh_cross.run(chk, ["roundtrip_bruteforce", "roundtrip_generic"], prop)
        chk.assumptions.append("CrossHair (E1) conditions are a cross-check by a second engine on List[int] inputs with symbolic "
                               "lengths <= 3; only 'Confirmed over all paths' counts as agreement; its timeouts do not affect the verdict")
    return chk.finish()


if __name__ == "__main__":
    sys.exit(main())
