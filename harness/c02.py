"""C02 -- generic JSON diff -> patch round trip is exact, value types included.

For documents a, b of the same container type built by gen/docs.py (shapes by
E.choice, every scalar leaf a SymScalar with symbolic JSON type tag and value):

  d = nbdime.diff(a, b)                       (real code, no exception allowed)
  O1  json_identical(refpatch(a, d), b)       independent reference patcher
  O2  json_identical(nbdime.patch(a, d), b)   nbdime's own patcher
  O3  d == []  =>  json_identical(a, b)
  O4  refpatch is strict: any op outside the documented format raises (-> violation)

Strings: every ordered pair of the designed pool through the same obligations
(enumeration over the pool -- string content is not symbolic; labelled so).
"""
import sys

from sx import runner
from sx.values import json_identical, land, lnot, implies, py_equal, SymScalar, NULL
from gen import docs
from oracles.refpatch import refpatch, RefPatchError
from . import common

PROP = "C02"


def _known_assumptions(E, a, b, known):
    """Exclude the input classes of recorded (open) findings as solver
    assumptions."""
    if "F1" in known:
        # F1: two scalars that are Python-equal but of different JSON type
        la = list(docs.leaves(a))
        lb = list(docs.leaves(b))
        for x in la:
            for y in lb:
                E.assume(implies(py_equal(x, y), json_identical(x, y)))


def _roundtrip(E, a, b, known):
    import nbdime
    from nbdime.diff_format import is_valid_diff  # noqa
    try:
        d = nbdime.diff(a, b)
    except Exception as ex:  # noqa
        E.fail("diff-raised", "%s: %s" % (type(ex).__name__, str(ex)[:200]))
        return
    E.nontrivial(len(d) > 0)
    E.goal("nonempty-diff", len(d) > 0)
    E.goal("empty-diff", len(d) == 0)
    E.goal("nested-patch", any(e.op == "patch" for e in d))
    E.observe("diff", d)
    try:
        r = refpatch(a, d)
    except RefPatchError as ex:
        E.fail("refpatch-rejects-diff", str(ex))
        return
    E.check("refpatch(a,diff)==b", json_identical(r, b),
            info="reference patcher result differs from target")
    try:
        r2 = nbdime.patch(a, d)
    except Exception as ex:  # noqa
        E.fail("patch-raised", "%s: %s" % (type(ex).__name__, str(ex)[:200]))
        return
    E.check("patch(a,diff)==b", json_identical(r2, b),
            info="nbdime.patch result differs from target")
    if len(d) == 0:
        E.check("empty-diff=>identical", json_identical(a, b),
                info="diff is empty but documents serialise differently")


def make_lists(n, m, known=()):
    def h(E):
        a = [E.scalar("a%d" % i) for i in range(n)]
        b = [E.scalar("b%d" % i) for i in range(m)]
        _known_assumptions(E, a, b, known)
        _roundtrip(E, a, b, known)
    return h, dict(reset=common.nbdime_reset)


def make_nested(root, depth, width, known=()):
    def h(E):
        if root == "L":
            a = docs.gen_list(E, "a", depth - 1, width)
            b = docs.gen_list(E, "b", depth - 1, width)
        else:
            a = docs.gen_dict(E, "a", depth - 1, width)
            b = docs.gen_dict(E, "b", depth - 1, width)
        _known_assumptions(E, a, b, known)
        _roundtrip(E, a, b, known)
    return h, dict(reset=common.nbdime_reset)


def main():
    common.silence_logging()
    t = common.tier()
    known = tuple(sorted(common.known_findings(PROP)))
    chk = common.Check(PROP, __doc__)
    N = 4 if t == "quick" else 5
    shards = [("lists-%dx%d" % (n, m), dict(n=n, m=m, known=known))
              for n in range(N + 1) for m in range(N + 1)]
    r = runner.explore("harness.c02", "make_lists", shards, nproc=common.nproc(),
                       budget_s=300 if t == "quick" else 1500)
    chk.add("flat-lists", r)
    chk.bounds["flat-lists"] = "all pairs of lists of 0..%d JSON scalars, every leaf symbolic (tag and value)" % N
    chk.require_goals(["nonempty-diff", "empty-diff"])
    return chk.finish()


if __name__ == "__main__":
    sys.exit(main())
