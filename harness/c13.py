"""C13 -- diff, patch, merge and rendering never modify their inputs.

Before every public call of the explorations (generic diff / patch, notebook
diff / patch, generic decide_merge / apply_decisions, merge_notebooks under
the default strategy and the strategy product, pretty_print_* under C16's
space) a structural snapshot of every argument is taken (new containers, the
same symbolic leaves); after the call z3 decides json_identical(arg,
snapshot) for all leaf values on the path.  Key order is not part of JSON
identity.

Aliasing clause: the mutable containers reachable from a result are
intersected, by identity, with those reachable from the inputs.  Sharing with
the *base-side* input (a of diff/patch, base of merge) is a violation.
Sharing of payload containers with the target-side inputs (b / local / remote
/ the diff) is recorded as known finding F11 (diff embeds sub-objects of b in
value / valuelist, patch and apply_decisions embed them in their result), so
only that class is excused.  Non-trivial = non-empty diff / at least one
decision.
"""
import sys

from sx import runner
from . import common, fam_diff, fam_merge, fam_nbdiff, fam_nbmerge as F

PROP = "C13"


def witness_F11():
    def h(E):
        import nbdime
        from oracles.alias import shared_containers
        a = [[E.int("x")]]
        b = [[E.int("x2")], {"k": [E.int("y")]}]
        d = nbdime.diff(a, b)
        sh = shared_containers(d, [("b", b)])
        E.check("diff-shares-no-container-with-b", not sh, info=sh[:2])
    return h, dict(reset=common.nbdime_reset)


def main():
    common.silence_logging()
    t = common.tier()
    known = common.known_findings(PROP)
    kn = tuple(sorted(known))
    chk = common.Check(PROP, __doc__)
    r = runner.explore("harness.fam_diff", fam_diff.shards(t, (PROP,), kn), nproc=common.nproc(),
                       budget_s=400 if t == "quick" else 3000)
    chk.add("generic-diff-patch", r)
    r = runner.explore("harness.fam_nbdiff", fam_nbdiff.shards("quick", (PROP,), kn, files=0, lite=(t == "quick")),
                       nproc=common.nproc(), budget_s=400 if t == "quick" else 3000)
    chk.add("notebook-diff-patch", r)
    r = runner.explore("harness.fam_merge", fam_merge.triple_shards(t, (PROP,), kn),
                       nproc=common.nproc(), budget_s=300 if t == "quick" else 2400)
    chk.add("generic-merge", r)
    sh = F.default_shards("quick", (PROP,), kn, tools=("git",))
    st = F.strategy_shards("quick", (PROP,), kn, tools=("git",))
    sh += st if t == "thorough" else st[::2]
    r = runner.explore("harness.fam_nbmerge", sh, nproc=common.nproc(), budget_s=400 if t == "quick" else 3000)
    chk.add("notebook-merge", r)
    try:
        from . import fam_render
        r = runner.explore("harness.fam_render", fam_render.shards("quick", (PROP,), kn, lite=(t == "quick")), nproc=common.nproc(),
                           budget_s=300 if t == "quick" else 2400)
        chk.add("rendering", r)
    except ImportError:
        pass
    if "F11" in known:
        w = runner.explore_inline(witness_F11(), max_violations=1)
        if w.violations:
            chk.known_finding("F11", "diff(a, b) embeds mutable sub-objects of b in its value/valuelist payloads "
                              "(%s); patch and apply_decisions hand the same objects on, so mutating a result alters b"
                              % str(w.violations[0]["info"])[:120])
    chk.bounds.update(fam_diff.BOUNDS[t])
    chk.bounds.update(fam_nbdiff.BOUNDS[t])
    chk.bounds.update(F.BOUNDS[t])
    chk.outside += fam_diff.OUTSIDE + F.OUTSIDE
    chk.stubs += F.STUBS
    chk.require_goals(["nonempty-diff", "conflict", "clean-two-sided"])
    F.f16_witness(chk, known)
    return chk.finish()


if __name__ == "__main__":
    sys.exit(main())
