"""Harness family "merge command and git merge driver" (C08).

The real nbmergeapp.main_merge and mergedriver.main(['merge', ...]) run
in-process.  Environment: the three input paths are real temp files (so the
existence checks and the null / empty-file placeholders take their real
paths); for ordinary inputs read_notebook is wrapped to hand back the
generator's notebooks (symbolic leaves), so the merge itself executes
symbolically; nbformat.write is reached through a shim that instantiates the
leaves with the path's current model and then calls the real nbformat.write,
whose Path.open / write calls go through a fault-injecting wrapper.

A single fault (E.choice over step x kind; or none) is injected at a step
boundary: reading each of the three inputs, diffing, deciding, applying,
opening the output, each write to it.  Kinds: OSError, MemoryError,
KeyboardInterrupt, kill (a BaseException at which the output bytes are
snapshotted; a killed write has written only part of its data).
"""
import io
import json
import os
import pathlib
import shutil
import sys
import tempfile

from sx import engine as eng
from sx.values import json_identical, strict_equal
from gen import notebooks as G
from . import common, fam_nbmerge as F


class Killed(BaseException):
    pass


STEPS = ["read-base", "read-local", "read-remote", "diff", "decide", "apply", "open-output",
         "write-1", "write-2"]
KINDS = ["OSError", "MemoryError", "KeyboardInterrupt", "kill"]
ORIGINAL = '{"sentinel": "ORIGINAL OUTPUT CONTENT"}\n'

SCRIPTS = [
    # (templates, local, remote, local inserts, remote inserts)  -- clean and conflicting
    (("codeA",), ("src1",), ("keep",), {}, {}),
    (("codeA",), ("src1",), ("src2",), {}, {}),
    (("codeA",), ("del",), ("src1",), {}, {}),
    (("codeB",), ("rerun",), ("rerun",), {}, {}),
    (("codeA", "codeB"), ("src1", "keep"), ("keep", "md_edit"), {}, {}),
    (("codeA",), ("md_edit",), ("md_edit",), {}, {}),
    (("codeA",), ("keep",), ("keep",), {0: "N1"}, {0: "N1s"}),
    (("mdAtt",), ("att_edit",), ("att_edit",), {}, {}),
]
STRATS = [("inline", None, None, True), ("use-local", None, None, True), ("inline", "use-remote", "clear-all", False),
          ("use-base", None, "remove", True), ("use-local", "inline", None, True), ("use-base", None, "inline", True),
          ("use-remote", "inline", "inline", False)]
PLACEHOLDERS = ["none", "base-null", "base-empty", "local-null", "remote-null", "both-null"]
# git hands a merge driver real (possibly empty) temp files, never the null
# device, and does not call it for files deleted on a side
DRIVER_PLACEHOLDERS = ["none", "base-empty"]


class Env(object):
    def __init__(self, E, fault_step, fault_kind):
        self.E = E
        self.fault_step = fault_step
        self.fault_kind = fault_kind
        self.fired = None
        self.out_path = None
        self.snapshot_at_kill = None
        self.steps_seen = []
        self.nwrites = 0

    def point(self, step, partial=None):
        self.steps_seen.append(step)
        if step != self.fault_step or self.fired:
            return
        self.fired = step
        if partial is not None:
            partial()
        k = self.fault_kind
        if k == "OSError":
            raise OSError(5, "injected I/O error at %s" % step)
        if k == "MemoryError":
            raise MemoryError("injected at %s" % step)
        if k == "KeyboardInterrupt":
            raise KeyboardInterrupt()
        self.snapshot_at_kill = read_bytes(self.out_path)
        raise Killed(step)


def read_bytes(path):
    try:
        with open(path, "rb") as f:
            return f.read()
    except (IOError, OSError):
        return None


class _CountingText(io.TextIOWrapper):
    def write(self, s):
        self.nchars = getattr(self, "nchars", 0) + len(s)
        return io.TextIOWrapper.write(self, s)


class FaultyStdout(object):
    """A sys.stdout whose consumer goes away, on a REAL file descriptor (the
    command may inspect or redirect it): 'BrokenPipeError' -- a pipe whose
    reading end is closed (`nbmerge ... | head`); 'ENOSPC' -- /dev/full
    (output redirected to a full disk); 'none' -- a temporary file."""

    def __init__(self, kind):
        self.kind = kind
        self.tmp = None
        if kind == "BrokenPipeError":
            r, w = os.pipe()
            os.close(r)
            raw = io.FileIO(w, "w")
        elif kind == "ENOSPC":
            raw = io.FileIO("/dev/full", "w")
        else:
            fd, self.tmp = tempfile.mkstemp(prefix="vfc08so")
            raw = io.FileIO(fd, "w")
        self.stream = _CountingText(io.BufferedWriter(raw), encoding="utf8")

    @property
    def fired(self):
        return self.kind != "none" and getattr(self.stream, "nchars", 0) > 0

    def getvalue(self):
        """Text that reached the consumer (fault-free kind only); closes."""
        text = ""
        try:
            self.stream.flush()
        except (OSError, ValueError):
            pass
        if self.tmp:
            with open(self.tmp, encoding="utf8") as f:
                text = f.read()
            os.unlink(self.tmp)
        try:
            self.stream.close()
        except (OSError, ValueError):
            pass
        return text


class FaultyFile(object):
    def __init__(self, real, env):
        self._real, self._env = real, env

    def write(self, s):
        self._env.nwrites += 1
        step = "write-%d" % self._env.nwrites

        def partial():
            self._real.write(s[:max(1, len(s) // 2)])
            self._real.flush()
        self._env.point(step, partial if self._env.fault_kind == "kill" else None)
        return self._real.write(s)

    def __enter__(self):
        return self

    def __exit__(self, *a):
        self._real.close()
        return False

    def __getattr__(self, name):
        return getattr(self._real, name)


def install(env, notebooks):
    """notebooks: path -> generator notebook."""
    import nbformat
    import nbdime.nbmergeapp as app
    import nbdime.merging.notebooks as mn
    saved = dict(read=app.read_notebook, nbformat=app.nbformat, json=app.json, diff=mn.diff_notebooks,
                 decide=mn.decide_merge_with_diff, apply=mn.apply_decisions, popen=pathlib.Path.open)
    real_read = app.read_notebook
    names = {}

    def read_notebook(f, on_null, on_empty=None):
        step = names.get(f)
        if step:
            env.point(step)
        if f in notebooks:
            return notebooks[f]
        return real_read(f, on_null, on_empty)

    def wrap(step, fn):
        def w(*a, **k):
            env.point(step)
            return fn(*a, **k)
        return w

    class NbformatShim(object):
        def __getattr__(self, name):
            return getattr(nbformat, name)

        @staticmethod
        def write(nb, fp, *a, **k):
            inst = nbformat.from_dict(env.E.instance(nb))
            return nbformat.write(inst, fp, *a, **k)

    def popen(self, mode="r", *a, **k):
        if "w" in mode and str(self) == env.out_path:
            env.point("open-output")
            return FaultyFile(saved["popen"](self, mode, *a, **k), env)
        return saved["popen"](self, mode, *a, **k)
    class JsonShim(object):
        def __getattr__(self, name):
            return getattr(json, name)

        @staticmethod
        def dump(obj, fp, *a, **k):
            return json.dump(env.E.instance(obj), fp, *a, **k)

    app.read_notebook = read_notebook
    app.nbformat = NbformatShim()
    app.json = JsonShim()
    mn.diff_notebooks = wrap("diff", saved["diff"])
    mn.decide_merge_with_diff = wrap("decide", saved["decide"])
    mn.apply_decisions = wrap("apply", saved["apply"])
    pathlib.Path.open = popen
    return saved, names


def uninstall(saved):
    import nbdime.nbmergeapp as app
    import nbdime.merging.notebooks as mn
    app.read_notebook, app.nbformat, app.json = saved["read"], saved["nbformat"], saved["json"]
    mn.diff_notebooks, mn.decide_merge_with_diff, mn.apply_decisions = saved["diff"], saved["decide"], saved["apply"]
    pathlib.Path.open = saved["popen"]


OUTMODES = ["file", "stdout", "decisions-file"]


def make_cli(entry, script_idx, faults=True, placeholders=("none",), strats=(0,), props=("C08",), known=(),
             force_ids=True, outmodes=("file",)):
    tm, sl, sr, il, ir = SCRIPTS[script_idx]

    def h(E):
        from nbdime.utils import EXPLICIT_MISSING_FILE as NULL
        F.install_env("git")
        ph = placeholders[E.choice("placeholder", len(placeholders))] if len(placeholders) > 1 else placeholders[0]
        strat = STRATS[strats[E.choice("strat", len(strats))] if len(strats) > 1 else strats[0]]
        om = outmodes[E.choice("outmode", len(outmodes))] if len(outmodes) > 1 else outmodes[0]
        if ph == "both-null" and om == "decisions-file":
            # agreed deletion with --decisions only pretty-prints (rendering is C16's subject)
            om = "stdout"
        if faults:
            fi = E.choice("fault", 1 + len(STEPS) * len(KINDS))
            fault_step, fault_kind = (None, None) if fi == 0 else (STEPS[(fi - 1) // len(KINDS)], KINDS[(fi - 1) % len(KINDS)])
        else:
            fault_step = fault_kind = None
        # F21: a null-file placeholder is an empty notebook declaring format 4.5;
        # merged with id-less pre-4.5 cells the result declares 4.5 without
        # ids and nbformat adds random ids on write.  Placeholders are therefore
        # combined with id-carrying notebooks only (recorded known finding).
        if ph != "none" and force_ids and "F21" in known:
            with_ids = 1
        else:
            with_ids = E.choice("ids", 2)
        ctx = G.Ctx(E, bool(with_ids), sym=("ec", "md"))
        base = G.base_notebook(ctx, tm)
        b = G.finalize(base)
        l = G.finalize(G.derive(ctx, base, "l", list(sl), dict(il), "keep"))
        r = G.finalize(G.derive(ctx, base, "r", list(sr), dict(ir), "keep"))
        import nbformat
        minimal = nbformat.v4.new_notebook()
        td = tempfile.mkdtemp(prefix="vfc08")
        env = Env(E, fault_step, fault_kind)
        fake_out = None
        try:
            paths = {}
            for name in ("base", "local", "remote"):
                p = os.path.join(td, name + ".ipynb")
                with open(p, "w") as f:
                    f.write("" if (ph == "base-empty" and name == "base") else '{"cells": [], "metadata": {}, "nbformat": 4, "nbformat_minor": 4}\n')
                paths[name] = p
            eff = {"base": b, "local": l, "remote": r}
            if ph == "base-null":
                paths["base"] = NULL
                eff["base"] = minimal
            elif ph == "base-empty":
                eff["base"] = minimal
            elif ph == "local-null":
                paths["local"] = NULL
                eff["local"] = minimal
            elif ph == "remote-null":
                paths["remote"] = NULL
                eff["remote"] = minimal
            elif ph == "both-null":
                paths["local"] = paths["remote"] = NULL
            nbmap = {paths[k]: eff[k] for k in ("base", "local", "remote")
                     if paths[k] != NULL and not (ph == "base-empty" and k == "base")}
            if entry == "nbmerge":
                out = os.path.join(td, "merged.ipynb")
                if E.choice("output-exists", 2):
                    with open(out, "w") as f:
                        f.write(ORIGINAL)
                    before = ORIGINAL.encode()
                else:
                    before = None           # the output location does not exist yet
            else:
                out = paths["local"] if paths["local"] != NULL else os.path.join(td, "local.ipynb")
                before = read_bytes(out)
            env.out_path = out
            # library merge first (so that the command re-executes decisions already on this path)
            lib = None
            if ph != "both-null":
                try:
                    lib = F.run_merge(eff["base"], eff["local"], eff["remote"], F.mk_args(*strat))
                except Exception as ex:  # noqa
                    E.fail("library-merge-raised", "%s: %s" % (type(ex).__name__, str(ex)[:200]))
                    return
            F._counter[0] = 0       # same marker-cell ids in the command's run as in the library run
            assert out != NULL and not out.startswith("/dev/")
            saved, names = install(env, nbmap)
            names.update({paths["base"]: "read-base", paths["local"]: "read-local", paths["remote"]: "read-remote"})
            status, exc, captured = None, None, ""
            try:
                try:
                    if entry == "nbmerge":
                        import nbdime.nbmergeapp as app
                        a = F.mk_args(*strat)
                        a.base, a.local, a.remote, a.out, a.decisions = paths["base"], paths["local"], paths["remote"], out, False
                        for c in ("sources", "outputs", "attachments", "metadata", "id", "details"):
                            setattr(a, c, None)
                        if om == "stdout":
                            a.out = None
                        elif om == "decisions-file":
                            a.decisions = True
                        if om == "stdout":
                            # through the real main() and argument parser, the
                            # way the console script runs; the terminal / pipe
                            # behind sys.stdout may fail (reader gone, disk full)
                            sofault = E.choice("stdout-fault", 3)
                            fake_out = FaultyStdout(("none", "BrokenPipeError", "ENOSPC")[sofault])
                            argv = ["--merge-strategy", strat[0]]
                            if strat[1]:
                                argv += ["--input-strategy", strat[1]]
                            if strat[2]:
                                argv += ["--output-strategy", strat[2]]
                            if not strat[3]:
                                argv += ["--no-ignore-transients"]
                            argv += [paths["base"], paths["local"], paths["remote"]]
                            import nbdime.args as nargs
                            sv = nargs.get_defaults_for_argparse
                            nargs.get_defaults_for_argparse = lambda ep: {}
                            real_stdout, sys.stdout = sys.stdout, fake_out.stream
                            try:
                                status = app.main(argv)
                                # what the interpreter does when main() returns
                                sys.stdout.flush()
                            finally:
                                nargs.get_defaults_for_argparse = sv
                                captured, sys.stdout = fake_out.getvalue(), real_stdout
                                import logging
                                logging.disable(logging.CRITICAL)
                        else:
                            real_stdout, sys.stdout = sys.stdout, io.StringIO()
                            try:
                                status = app.main_merge(a)
                            finally:
                                captured, sys.stdout = sys.stdout.getvalue(), real_stdout
                    else:
                        from nbdime.vcs.git import mergedriver
                        import nbdime.args as nargs
                        sv = nargs.get_defaults_for_argparse
                        nargs.get_defaults_for_argparse = lambda ep: {}
                        try:
                            argv = ["merge", "--merge-strategy", strat[0]]
                            if strat[1]:
                                argv += ["--input-strategy", strat[1]]
                            if strat[2]:
                                argv += ["--output-strategy", strat[2]]
                            if not strat[3]:
                                argv += ["--no-ignore-transients"]
                            argv += [paths["base"], paths["local"], paths["remote"], "7", "notebook.ipynb"]
                            status = mergedriver.main(argv)
                        finally:
                            nargs.get_defaults_for_argparse = sv
                            import logging
                            logging.disable(logging.CRITICAL)
                except (eng.Concretize, eng.EngineError, eng.Inconclusive, eng.PathAbort, eng.PathDone):
                    raise
                except BaseException as ex:  # noqa: faults propagate out of the command
                    exc = ex
            finally:
                uninstall(saved)
            after = read_bytes(out)
            fired = env.fired
            info = "entry %s script %d placeholder %s outmode %s strategy %r fault %r/%r fired %r status %r exception %r" % (
                entry, script_idx, ph, om, strat, fault_step, fault_kind, fired, status,
                (type(exc).__name__ + ": " + str(exc)[:80]) if exc else None)
            E.nontrivial(fired is not None or (lib is not None and len(lib[1]) > 0))
            if om == "stdout" and entry == "nbmerge" and fake_out.fired:
                E.goal("stdout-fault-" + fake_out.kind)
                E.check("never-reports-success-after-a-failed-write-to-stdout",
                        exc is not None or (status is not None and status != 0),
                        info=info + " stdout fault %s" % (fake_out.kind,))
                E.check("stdout-mode-leaves-output-file-untouched", after == before, info=info)
                return
            if exc is not None and not fired:
                E.fail("command-raised-without-fault", info)
                return
            if fired:
                E.goal("fault-" + fired)
                E.goal("kind-" + fault_kind)
                E.check("never-reports-success-after-a-fault", exc is not None or (status is not None and status != 0), info=info)
                if fired not in ("write-1", "write-2"):
                    probe = env.snapshot_at_kill if fault_kind == "kill" else after
                    E.check("failure-before-writing-leaves-output-untouched", probe == before and after == before,
                            info=info + " output before %r after %r" % (before[:40] if before else before, after[:40] if after else after))
                return
            if fault_step is not None:
                E.goal("fault-point-not-reached")
            if ph == "both-null":
                E.goal("agreed-deletion")
                E.check("agreed-deletion-exits-zero", status == 0, info=info)
                if om == "file":
                    E.check("agreed-deletion-removes-output", after is None, info=info)
                else:
                    E.check("agreed-deletion-without-merged-output-leaves-file-untouched", after == before, info=info)
                return
            conflicted = any(d.conflict for d in lib[1])
            E.goal("clean-exit", not conflicted)
            E.goal("conflict-exit", conflicted)
            E.check("exit-status-zero-iff-no-conflict", (status == 0) == (not conflicted), info=info)
            if om == "stdout":
                E.goal("merged-to-stdout")
                E.check("stdout-mode-leaves-output-file-untouched", after == before, info=info)
                after = captured.encode("utf8")
            elif om == "decisions-file":
                E.goal("decisions-to-file")
                try:
                    parsed = json.loads(after.decode("utf8"))
                except Exception as ex:  # noqa
                    E.fail("decisions-file-is-not-well-formed-json", info + " %s" % ex)
                    return
                want = json.loads(json.dumps(E.instance(list(lib[1]))))
                E.check("decisions-file-equals-library-decisions", strict_equal(parsed, want), info=info)
                return
            try:
                parsed = json.loads(after.decode("utf8"))
            except Exception as ex:  # noqa
                E.fail("output-is-not-well-formed-json", info + " %s" % ex)
                return
            want = json.loads(nbformat.writes(nbformat.from_dict(E.instance(lib[0]))))
            E.check("output-equals-library-merge", strict_equal(parsed, want), info=info)
            if entry == "driver":
                E.goal("driver-wrote-local-path")
        finally:
            shutil.rmtree(td, ignore_errors=True)
    return h, dict(reset=common.nbdime_reset)


def shards(tier, props, known):
    kw = dict(props=tuple(props), known=tuple(known))
    out = []
    for entry in ("nbmerge", "driver"):
        for i in range(len(SCRIPTS)):
            # no faults: placeholders x strategies
            out.append(("make_cli", "cli-%s-%d" % (entry, i),
                        dict(entry=entry, script_idx=i, faults=False,
                             placeholders=tuple(PLACEHOLDERS if entry == "nbmerge" else DRIVER_PLACEHOLDERS),
                             strats=tuple(range(len(STRATS))),
                             outmodes=tuple(OUTMODES) if entry == "nbmerge" else ("file",), **kw)))
        fs = range(len(SCRIPTS))
        for i in fs:
            out.append(("make_cli", "fault-%s-%d" % (entry, i),
                        dict(entry=entry, script_idx=i, faults=True,
                             placeholders=(("none", "base-null", "both-null") if entry == "nbmerge" else ("none", "base-empty"))
                             if (tier == "thorough" or i == 0) else ("none",),
                             strats=(0,) if tier == "quick" else (0, 4, 6), **kw)))
    return out
