"""C06 -- changes to different cells merge cleanly into exactly both sets of
changes.

Notebooks: each base cell is owned by nobody, local or remote (E.choice); only
the owner changes it (edit source / outputs / metadata / execution count,
re-run, delete); a side inserts a new cell into a gap only if neither
neighbouring cell is owned by the other side.  Infeasible combinations are
pruned as assumptions.  Cells are id-aligned (minor 5) or, without ids,
mutually dissimilar pool sources, so 'the same cell' is unambiguous.  On every
feasible path of the real merge_notebooks (default strategy) z3 decides:

  D1  no decision is conflicted
  D2  json_identical(merged, expected)   expected = base with both action
      sets applied, built by the harness with the same symbolic leaves
      (by-construction oracle).

Generic JSON: lists with owned positions of different sides never adjacent
(all values pairwise distinct by solver assumption) and objects with disjoint
key ownership, through the real decide_merge + apply_decisions.
Non-trivial = both sides changed something.
"""
import sys

from sx import runner
from . import common, fam_merge, fam_nbmerge as F

PROP = "C06"


def main():
    common.silence_logging()
    t = common.tier()
    known = common.known_findings(PROP)
    kn = tuple(sorted(known))
    chk = common.Check(PROP, __doc__)
    r = runner.explore("harness.fam_nbmerge", F.owned_shards(t, (PROP,), kn), nproc=common.nproc(),
                       budget_s=420 if t == "quick" else 3000)
    chk.add("notebook-ownership", r)
    r = runner.explore("harness.fam_merge", fam_merge.disjoint_shards(t, (PROP,), kn),
                       nproc=common.nproc(), budget_s=300 if t == "quick" else 1500)
    chk.add("generic-disjoint", r)
    chk.bounds["notebook-ownership"] = (
        "bases codeA+codeB, codeA+md, codeB+codeRes2 with every ownership partition x 8 owner actions x "
        "insertions per gap and side; three-cell base codeA+codeB+md with 4 owner actions, no insertions; ids on/off"
        if t == "quick" else
        "9 bases of 2..4 cells, every ownership partition x 8 owner actions x insertions per gap and side; ids on/off")
    chk.bounds["generic-disjoint"] = "lists of 0..%d distinct symbolic ints with per-position owner/action and per-gap insertion; objects over keys {a,b,c} with per-key owner/action, scalar or list values" % (4 if t == "quick" else 5)
    chk.outside += F.OUTSIDE
    chk.stubs += F.STUBS
    chk.require_goals(["both-sides-changed"])
    chk.assumptions += ["at most one side inserts into any one gap (two insertions into one gap fall under C05's proviso)"]
    return chk.finish()


if __name__ == "__main__":
    sys.exit(main())
