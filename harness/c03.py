"""C03 -- three-way merge always completes for valid notebooks under every
strategy.

The real merge_notebooks is executed symbolically on (base, local, remote)
where local and remote are independent edit scripts of base (gen/notebooks.py;
E.choice enumerates the scripts, symbolic leaves: execution counts, metadata
values, JSON payload numbers, nbformat_minor of each notebook).  Strategy
arguments and the text-merge back end (git merge-file, diff3, built-in; chosen
by stubbing `which` inside nbdime.prettyprint, the real subprocesses run) are
selectors as well.  Obligation on every feasible path: the call returns
(notebook, list) -- any exception (assertion failures included) is a
counterexample, reported with the raising function.

Part 'default-strategy': the full local x remote script product under the
default strategy.  Part 'strategy-product': 40 conflict-prone script pairs
under all 4 x 5 x 7 x 2 CLI combinations plus 'mergetool', x 3 back ends.
Non-trivial = at least one decision.
"""
import sys

from sx import runner
from . import common, fam_nbmerge as F

PROP = "C03"
GOALS = ["conflict", "clean-two-sided", "custom-conflict", "action-local_then_remote",
         "action-remote_then_local", "action-either", "action-clear", "action-base"]


def main(prop=PROP, doc=__doc__, goals=GOALS):
    common.silence_logging()
    t = common.tier()
    known = common.known_findings(prop)
    kn = tuple(sorted(known))
    chk = common.Check(prop, doc)
    sh = F.default_shards(t, (prop,), kn, tools=("git",))
    sh += F.with_tool(F.default_shards(t, (prop,), kn, tools=("git",)), "builtin", only=("act-git-codeA", "act-git-md", "pair-", "scn-long", "scn-lines", "scn-unicode"))
    sh += F.with_tool(F.default_shards(t, (prop,), kn, tools=("git",)), "diff3", only=("act-git-codeA", "act-git-md", "scn-long", "scn-lines"))
    sh += F.with_tool(F.default_shards(t, (prop,), kn, tools=("git",)), "diffonly", only=("act-git-codeA", "scn-lines"))
    r = runner.explore("harness.fam_nbmerge", sh, nproc=common.nproc(),
                       budget_s=400 if t == "quick" else 3000)
    chk.add("default-strategy", r)
    r = runner.explore("harness.fam_nbmerge", F.strategy_shards(t, (prop,), kn),
                       nproc=common.nproc(), budget_s=400 if t == "quick" else 3000)
    chk.add("strategy-product", r)
    if prop == "C04" and "F22" in known:
        w = runner.explore_inline(F.make_default(templates=("codeT",), acts="ACTS_TAGS", ins=(0, 0), ids=(0,),
                                                 props=(prop,), known=()), max_violations=1)
        if w.violations:
            chk.known_finding("F22", "both sides add the same tag at different positions: %s" % (
                str(w.violations[0]["info"])[:140]))
    chk.bounds.update(F.BOUNDS[t])
    chk.outside += F.OUTSIDE
    chk.stubs += F.STUBS
    F.f16_witness(chk, known)
    chk.require_goals(goals)
    chk.assumptions += ["generated inputs are validated against nbformat's schema (invalid input = harness error)",
                        "open known findings excluded: %s" % ", ".join(kn)]
    return chk.finish()


if __name__ == "__main__":
    sys.exit(main())
