"""C17 -- diffing git revisions: NARROW claim (working-directory kernel and
entry filtering / pairing kernel of nbdime.gitfiles).

What a solver can reach here is small and only this is claimed:

(1) cwd restoration.  os inside nbdime.utils is replaced by a two-line model
    of the process working directory over symbolic tokens (chdir(p): cwd :=
    cwd if p is os.curdir else p).  For an arbitrary initial directory, an
    arbitrary target and a body that returns, raises or nests another pushd,
    `with pushd(p): body` leaves cwd equal to its initial value (decided by z3
    over the tokens); the same after a complete changed_notebooks iteration.
    The concrete shadow run additionally executes the clause with real
    temporary directories.
(2) entry filtering and pairing.  GitPython is replaced by a nondeterministic
    stub: diff() returns 0..2 (3) arbitrary entries (notebook / other suffix /
    absent per side, blob present / None or the same blob on both sides, file
    on disk or not for the working tree), the repository is found by the real
    get_repo 0..2 directories above the start directory,
    refs are commit / index / working tree, paths None / one / several.  The
    pairs yielded by the real changed_notebooks must equal the by-construction
    expectation (non-notebooks skipped, the null file for missing sides, the
    working-tree file opened from inside the repository directory), the diff
    must be requested between the given refs, and path filters must be
    prefixed by the sub-directory components.

(3) ref-vs-path kernel.  is_gitref over real temp files / directories and a
    stubbed ref validity: whatever exists on disk is a path, the null file is
    never a ref; resolve_diff_args routes one, two or three positional
    arguments accordingly (a ref followed by the path of a file that no longer
    exists is base + path filter).
(4) a second identical request in the same process after the refs moved (new
    blob contents behind the same ref names and paths) pairs the current
    contents.

Outside the claim, explicitly: that GitPython / git report the right set of
changed files for any history, renames across file types, ref-vs-path
disambiguation against a real repository.  Non-trivial = at least one pair
expected.
"""
import sys

from sx import runner
from . import common, fam_git

PROP = "C17"


def main():
    common.silence_logging()
    t = common.tier()
    known = common.known_findings(PROP)
    kn = tuple(sorted(known))
    chk = common.Check(PROP, __doc__)
    r = runner.explore("harness.fam_git", fam_git.shards(t, (PROP,), kn), nproc=common.nproc(),
                       budget_s=300 if t == "quick" else 1500)
    chk.add("git-kernel", r)
    chk.bounds["git-kernel"] = "pushd: 3 body kinds, symbolic cwd / target tokens; changed_notebooks: 0..%d stubbed diff entries x 6 path-kind pairs x blob presence x on-disk presence, 2 base ref kinds x 3 remote ref kinds x 3 sub-directory depths x 3 path-filter shapes" % (2 if t == "quick" else 3)
    chk.outside += ["GitPython / git behaviour (which files are reported as changed, renames, staging semantics)",
                    "is_gitref / resolve_diff_args disambiguation against a real repository",
                    "git filters beyond one clean filter whose git answers and program are stubbed (the real apply_possible_filter runs)"]
    chk.stubs += ["nbdime.utils.os -> FakeOS (cwd model over tokens)", "nbdime.gitfiles.Repo -> stand-in for git.Repo (only one directory is a repository; the real get_repo walks up to it)",
                  "nbdime.gitfiles.apply_possible_filter -> identity", "nbdime.gitfiles.io -> in-memory files"]
    chk.require_goals(["pushd-body-raises", "pairs-yielded", "non-notebook-skipped", "working-tree", "identical-blobs",
                       "existing-directory-that-is-also-a-ref", "ref-then-deleted-path", "second-request-after-refs-moved", "clean-filter-and-file-deleted-in-working-tree"])
    return chk.finish()


if __name__ == "__main__":
    sys.exit(main())
