#!/bin/sh
# tools/killmatrix.sh <seed-id> <property> [tier]
# Runs one check against one seeded change WITHOUT touching /repo or the
# committed evidence: the change is applied in a scratch worktree which is put
# first on PYTHONPATH (so `import nbdime` resolves there), evidence goes to a
# scratch directory.  Prints: <seed> <property> exit=<rc> <first finding line>
ID=$1; PROP=$2; TIER=${3:-quick}
W=/tmp/kmwt_${ID}_$PROP
EV=/tmp/kmev_${ID}_$PROP
rm -rf $W $EV; mkdir -p $EV
git -C /repo worktree prune
git -C /repo worktree add -q $W HEAD || exit 3
git -C $W apply /verif/seeded/$ID/patch.diff || { echo "$ID $PROP patch-does-not-apply"; git -C /repo worktree remove --force $W; exit 3; }
cd "$(dirname "$0")/.."
PYTHONPATH=$W VERIF_EVIDENCE_DIR=$EV ./vcheck $PROP $TIER > $EV/log 2>&1
RC=$?
git -C /repo worktree remove --force $W
LINE=$(grep -m1 -E "counterexample|INCONCLUSIVE" $EV/log | cut -c1-260)
echo "$ID $PROP exit=$RC $LINE"
rm -rf $EV
