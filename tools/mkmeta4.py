#!/usr/bin/env python3
"""tools/mkmeta4.py <seed> <property> <first_result> <result_now> <needs> [strengthened] [detected_by]
Writes seeded/<seed>/meta.json for a round-4 seed (after verify_seed4.sh and killmatrix.sh)."""
import json, os, re, sys
seed, prop, first, now, needs = sys.argv[1:6]
strengthened = sys.argv[6] if len(sys.argv) > 6 else ""
by = sys.argv[7] if len(sys.argv) > 7 else prop
here = os.path.dirname(os.path.dirname(os.path.abspath(__file__)))
d = os.path.join(here, "seeded", seed)
files = sorted(set(re.findall(r"^\+\+\+ b/(\S+)", open(os.path.join(d, "patch.diff")).read(), re.M)))
title = ""
for l in open(os.path.join(here, "properties.jsonl")):
    p = json.loads(l)
    if p["id"] == prop:
        title = p["title"]
meta = {
 "seed": seed, "round": 4, "property": prop, "property_title": title, "files_changed": files,
 "produced_by": "independent sub-agent given only the property text, its own scratch worktree of /repo and the list of sites used in earlier rounds (nothing from /verif)",
 "needs_to_manifest": needs,
 "confirmed": {"how": "tools/verify_seed4.sh in a scratch worktree outside /repo and /verif (applies on /repo HEAD; demo run as `python out/<demo>` from the worktree)",
               "suite": "baseline stable_pass=6285 passed_now=6285 missing=0",
               "demo_without_change": "exit 0", "demo_with_change": "exit 1"},
 "detection": {"check": "./vcheck %s quick (via tools/killmatrix.sh %s %s)" % (by, seed, by),
               "first_result": first, "strengthened": strengthened, "result_now": now},
}
json.dump(meta, open(os.path.join(d, "meta.json"), "w"), indent=1)
print("meta", seed)
