#!/bin/sh
# tools/verify_seed.sh <srcdir> <diffname> <demoname> <seed-id>
# Confirms a seeded change in a scratch worktree (outside /repo and /verif):
# applies cleanly on /repo HEAD, suite still passes, demo fails with / passes
# without.  On success copies it to /verif/seeded/<seed-id>/.
SRC=$1; DIFF=$2; DEMO=$3; ID=$4
W=/tmp/scratch_seed_$ID
rm -rf $W; git -C /repo worktree prune; git -C /repo worktree add -q $W HEAD || exit 3
cp $SRC/$DEMO $W/$DEMO
cd $W
R0=$( /venv/bin/python $DEMO >/dev/null 2>&1; echo $? )
git apply $SRC/$DIFF || { echo "$ID: patch does not apply"; git -C /repo worktree remove --force $W; exit 3; }
R1=$( /venv/bin/python $DEMO >/dev/null 2>&1; echo $? )
B=$( /venv/bin/python /verif/tools/baseline_check.py $W | head -1 )
cd /verif
git -C /repo worktree remove --force $W
echo "$ID: demo_without=$R0 demo_with=$R1 $B"
case "$B" in *"missing=0"*) ;; *) echo "$ID: REJECTED (suite)"; exit 1;; esac
[ "$R0" = "0" ] && [ "$R1" != "0" ] || { echo "$ID: REJECTED (demo)"; exit 1; }
mkdir -p seeded/$ID
cp $SRC/$DIFF seeded/$ID/patch.diff
cp $SRC/$DEMO seeded/$ID/demo.py
echo "$ID: kept"
