#!/bin/sh
# tools/verify_seed4.sh <srcdir> <diffname> <demoname> <seed-id>
# As verify_seed.sh, for round-4 seeds whose demos are run as
# `cd <worktree> && python out/<demo>` (helper files out/_*.py are copied too).
SRC=$1; DIFF=$2; DEMO=$3; ID=$4
W=/tmp/scratch_seed_$ID
rm -rf $W; git -C /repo worktree prune; git -C /repo worktree add -q $W HEAD || exit 3
mkdir -p $W/out; cp $SRC/$DEMO $W/out/$DEMO; cp $SRC/_*.py $W/out/ 2>/dev/null; cp -r $SRC/stubs $W/out/ 2>/dev/null
cd $W
R0=$( timeout 600 /venv/bin/python out/$DEMO >/dev/null 2>&1; echo $? )
git apply $SRC/$DIFF || { echo "$ID: patch does not apply"; cd /verif; git -C /repo worktree remove --force $W; exit 3; }
R1=$( timeout 600 /venv/bin/python out/$DEMO >/dev/null 2>&1; echo $? )
B=$( /venv/bin/python /verif/tools/baseline_check.py $W | head -1 )
cd /verif
git -C /repo worktree remove --force $W
echo "$ID: demo_without=$R0 demo_with=$R1 $B"
case "$B" in *"missing=0"*) ;; *) echo "$ID: REJECTED (suite)"; exit 1;; esac
[ "$R0" = "0" ] && [ "$R1" != "0" ] || { echo "$ID: REJECTED (demo)"; exit 1; }
mkdir -p seeded/$ID
cp $SRC/$DIFF seeded/$ID/patch.diff
cp $SRC/$DEMO seeded/$ID/demo.py
cp $SRC/_*.py seeded/$ID/ 2>/dev/null
[ -d $SRC/stubs ] && cp -r $SRC/stubs seeded/$ID/
cp $SRC/NOTES.md seeded/$ID/NOTES.md 2>/dev/null
[ -f $SRC/PREEXISTING.md ] && cp $SRC/PREEXISTING.md seeded/$ID/PREEXISTING.md
echo "$ID: kept"
