#!/usr/bin/env python3
"""Run /repo's pinned test suite (guard off) and compare with BASELINE.json's
stable_pass list.  Usage: baseline_check.py [repo_dir]"""
import json, os, subprocess, sys, tempfile
import xml.etree.ElementTree as ET
repo = sys.argv[1] if len(sys.argv) > 1 else "/repo"
base = json.load(open("/root/.vp/BASELINE.json"))
want = set(base["stable_pass"])
fd, out = tempfile.mkstemp(suffix=".xml"); os.close(fd)
env = dict(os.environ); env.pop("NBDIME_VERIF", None)
subprocess.run(["/venv/bin/python", "-m", "pytest", "-q", "-p", "no:cacheprovider", "--timeout=900",
                "--continue-on-collection-errors", "-n", "12", "--junitxml=" + out],
               cwd=repo, env=env, stdout=subprocess.DEVNULL, stderr=subprocess.DEVNULL)
passed = set()
for tc in ET.parse(out).getroot().iter("testcase"):
    if not any(c.tag in ("failure", "error", "skipped") for c in tc):
        passed.add("%s::%s" % (tc.get("classname"), tc.get("name")))
os.unlink(out)
missing = sorted(want - passed)
print("baseline stable_pass=%d passed_now=%d missing=%d" % (len(want), len(passed & want), len(missing)))
for m in missing[:20]:
    print("  NOT PASSING:", m)
sys.exit(1 if missing else 0)
