#!/bin/sh
# tools/mutant.sh <patch> <property> [tier]: apply a patch to /repo, run the
# check, undo the patch.  Prints the last lines of the check and its exit code.
P=$1; PROP=$2; TIER=${3:-quick}
cd /repo || exit 3
git diff --quiet || { echo "repo dirty"; exit 3; }
git apply "$P" || { echo "patch does not apply"; exit 3; }
cd /verif
cp evidence/$PROP.json /tmp/evidence_$PROP.bak 2>/dev/null
./vcheck $PROP $TIER > /tmp/mutant_$PROP.log 2>&1
RC=$?
cp /tmp/evidence_$PROP.bak evidence/$PROP.json 2>/dev/null
git -C /repo checkout -- .
grep -E "counterexample|VIOLATION|INCONCLUSIVE|^OK|tier=" /tmp/mutant_$PROP.log | head -6 | cut -c1-400
echo "exit=$RC"
