#!/usr/bin/env python3
"""Regenerate /verif/MANIFEST.json from the table below."""
import json, os

CLAIMED = {
 "C01": ("notebook diff/patch round trip: real diff_notebooks/patch executed symbolically over generated notebooks (symbolic leaves: minor version, execution counts, metadata values, JSON payload scalars; edit-script selectors enumerated); reference patcher + JSON identity decided by z3 per path; file interface witnessed on model instances", "6.C01"),
 "C02": ("generic JSON diff/patch round trip incl. value types: real nbdime.diff/patch on documents whose scalar leaves have symbolic JSON type and value; reference patcher from the documented format; z3 discharges identity for all values on each path", "6.C02"),
 "C03": ("merge completes: real merge_notebooks over generated triples x strategy product x text-merge tool; any exception on any feasible path is a counterexample", "6.C03"),
 "C04": ("merged notebook validates against nbformat's schema for its declared minor; minors symbolic", "6.C04"),
 "C05": ("merge laws (identity, adoption, agreement, symmetry) on generic documents and notebooks, decided per path by z3", "6.C05"),
 "C06": ("disjoint ownership merges cleanly into the by-construction expectation; ownership/insert constraints pruned by the solver", "6.C06"),
 "C07": ("default strategy neither drops nor invents source lines; same-line rewrites are flagged; three text-merge back ends", "6.C07"),
 "C08": ("merge command / git driver exit status, output file and failure behaviour with a symbolic single fault over I/O steps", "6.C08"),
 "C09": ("decisions determine the merge (reference applier), choose-local/remote reproduce sides, schema, ordering", "6.C09"),
 "C10": ("use-base/local/remote equal relabelled mergetool decisions applied by the reference applier", "6.C10"),
 "C11": ("every diff produced (generic, notebook, inside decisions) passes a strict well-formedness validator and the published schema; unit harnesses over arbitrary valid pre-states", "6.C11"),
 "C12": ("diffing is independent of process history: symbolic histories of diff/merge/ignore calls compared with a pristine re-import", "6.C12"),
 "C13": ("inputs never modified: structural snapshots with the same symbolic leaves compared by JSON identity after every public call; container aliasing reported", "6.C13"),
 "C14": ("ignore options: 64 subsets x delivery modes x per-category difference flags; nothing reported in ignored categories, round trip on the rest", "6.C14"),
 "C16": ("terminal rendering never fails; emptiness / non-emptiness / no ANSI without colour", "6.C16"),
 "C17": ("narrow: working-directory restoration (symbolic cwd tokens), entry filtering/pairing kernel of changed_notebooks over a nondeterministic git stub (sub-directory start, path filters, clean filter through the real apply_possible_filter, a second request after the refs moved) and ref-vs-path routing of one to three positional arguments", "6.C17"),
 "C18": ("narrow: configuration kernel of the git integration set-up commands (4 tools x enable/disable/--set-default, config-git) through their real main(); git config replaced by a two-scope key/value model validated against the real git binary on each path's model instance; pre-existing setting values are symbolic strings, so idempotence, 'only nbdime's own entries are written' and 'a default tool naming another program is kept' are decided by z3 for every value", "6.C18"),
 "C19": ("option resolution against an executable model of docs/source/config.rst with symbolic presence/values per (directory, section, option)", "6.C19"),
}
NA = {
 "C15": "subject is ~2000 lines of TypeScript; no TypeScript compiler or JavaScript symbolic executor in the sandbox, and a hand translation into SMT would be a model of the code, not the code (DESIGN.md section 7)",
 "C20": "jupyter_server, jinja2 and requests are not installed and every input crosses tornado/json/file-system C boundaries that force concrete values; the library calls behind the endpoints are decided under C01, C09, C12 (DESIGN.md section 7)",
}
here = os.path.dirname(os.path.dirname(os.path.abspath(__file__)))
built = sorted(p for p in CLAIMED if os.path.exists(os.path.join(here, "harness", p.lower() + ".py")))
checks = []
for p in built:
    text, ref = CLAIMED[p]
    checks.append({
        "property_id": p,
        "quick_cmd": "./vcheck %s quick" % p,
        "thorough_cmd": "./vcheck %s thorough" % p,
        "evidence_file": "evidence/%s.json" % p,
        "replay_cmd_template": "./vcheck replay {path}",
        "engine": "sx",
        "level_claimed": {"category": "other",
                          "text": "bounded symbolic execution of the real code: " + text + ". Bounded; shapes, selectors and string pools are enumerated, scalar leaves and structural constraints are decided by the SMT solver for all values.",
                          "design_ref": ref},
        "level_note": "trusts: z3 5.1.0; the sx proxies (validated on every path by a concrete shadow run of the same harness); oracles in /verif/oracles written from nbdime's docs; stated stubs. Bounds and what lies outside are in the evidence file.",
        "technique": "solver-based checking: proxy symbolic execution of the real Python (sx) with z3 deciding every branch and obligation; counterexamples replayed concretely",
    })
na = [{"property_id": k, "reason": v} for k, v in sorted(NA.items())]
for p in sorted(CLAIMED):
    if p not in built:
        na.append({"property_id": p, "reason": "check not built yet in this revision of /verif (planned: DESIGN.md section 6)"})
m = {
 "version": 1,
 "setup_cmd": "./setup.sh",
 "hooks": {"guard": "NBDIME_VERIF", "enable": "none needed: stubs are installed by monkey-patching from the harness process; /repo carries no hook commits",
           "baseline_off_cmd": "cd /repo && /venv/bin/python -m pytest -ra -q -p no:cacheprovider --timeout=900 --continue-on-collection-errors",
           "source_commits": [], "add_only": True},
 "engines": [{"name": "sx", "path": "sx/", "serves_properties": built,
              "kind_free_text": "proxy-based path-exploring symbolic executor for Python on z3 (SymInt/SymBool/SymScalar leaves, DFS by re-execution, function summaries, solver decides each branch and obligation, concrete shadow run per path, sampled re-decision by z3 4.8.12 and cvc5)"},
             {"name": "crosshair", "path": "xh/", "serves_properties": [p for p in ("C02", "C05", "C11") if p in built],
              "kind_free_text": "CrossHair 0.0.110 conditions on the generic core (List[int], symbolic lengths <= 3) as a second-engine cross-check; only 'Confirmed over all paths' counts as agreement"}],
 "checks": checks,
 "not_applicable": sorted(na, key=lambda x: x["property_id"]),
 "notes": "Exit 0 = all obligations discharged and path tree exhausted; 1 = replayed counterexample (VIOLATION line); 2 = inconclusive. known_findings.json lists genuine defects (open -> KNOWN-FINDING line; fixed -> fix: commit in /repo).",
}
json.dump(m, open(os.path.join(here, "MANIFEST.json"), "w"), indent=1)
print("claimed:", built)
