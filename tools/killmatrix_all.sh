#!/bin/sh
# tools/killmatrix_all.sh [outfile]
# Runs tools/killmatrix.sh for every seed that is still in force (meta.json
# without a "superseded" entry), newest round first, one after the other, and
# appends one line per seed to the outfile.  C08d is detected by C07 (see
# DESIGN.md section 10), so it is run against both.
cd "$(dirname "$0")/.."
OUT=${1:-/tmp/killmatrix_all.txt}
: > $OUT
LIST=$(/usr/bin/env python3 - <<'PY'
import json, glob, os
rows = []
for p in glob.glob("seeded/*/meta.json"):
    m = json.load(open(p))
    if "superseded" in m:
        continue
    rows.append((-int(m.get("round", 1)), 0 if "rebased" in m else 1, m["seed"]))
print(" ".join(s for _, _, s in sorted(rows)))
PY
)
for s in $LIST; do
  p=$(echo $s | cut -c1-3)
  tools/killmatrix.sh $s $p >> $OUT 2>&1
  [ "$s" = "C08d" ] && tools/killmatrix.sh C08d C07 >> $OUT 2>&1
  # round 4: seeds whose behaviour belongs to a neighbouring property's check
  case "$s" in C02g|C06e) tools/killmatrix.sh $s C13 >> $OUT 2>&1 ;; C06g|C12g) tools/killmatrix.sh $s C19 >> $OUT 2>&1 ;; esac
done
echo "done: $(grep -c 'exit=1' $OUT) reported, $(grep -c 'exit=0' $OUT) not reported, $(grep -c 'exit=2' $OUT) inconclusive" >> $OUT
