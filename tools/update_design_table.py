#!/usr/bin/env python3
"""Rewrite the 'quick (paths / wall)' column of the summary table in DESIGN.md
from the evidence files of the last quick runs."""
import json, os, re
here = os.path.dirname(os.path.dirname(os.path.abspath(__file__)))
p = os.path.join(here, "DESIGN.md")
s = open(p).read()
out = []
for line in s.split("\n"):
    m = re.match(r"^\| (C\d\d) \|", line)
    cells = line.split(" | ")
    if m and len(cells) == 5 and os.path.exists(os.path.join(here, "evidence", m.group(1) + ".json")):
        e = json.load(open(os.path.join(here, "evidence", m.group(1) + ".json")))
        if e.get("tier") == "quick":
            paths = e["coverage"]["paths"]
            cells[3] = "%d k / %d s" % (round(paths / 1000.0), round(e["wall_s"]))
            line = " | ".join(cells)
    out.append(line)
open(p, "w").write("\n".join(out))
