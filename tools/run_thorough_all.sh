#!/bin/sh
# Run every thorough command end-to-end once, one after the other (each uses
# all cores); evidence goes to a scratch directory, a summary line per check to
# stdout.
cd "$(dirname "$0")/.."
OUT=${1:-/tmp/thorough_out}
mkdir -p $OUT
for p in ${CHECKS:-C17 C18 C19 C08 C10 C02 C12 C06 C07 C16 C05 C14 C01 C03 C04 C09 C11 C13}; do
  s=$(date +%s)
  VERIF_EVIDENCE_DIR=$OUT ./vcheck $p thorough > $OUT/$p.log 2>&1
  rc=$?
  e=$(date +%s)
  echo "$p rc=$rc $((e-s))s $(grep -E '^C[0-9]+ tier' $OUT/$p.log | cut -c1-140)"
  grep -E "INCONCLUSIVE|counterexample" $OUT/$p.log | head -3 | cut -c1-300
done
