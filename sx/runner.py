"""Parallel exploration driver for sx.

A *job* is (harness module, factory name, params, decision prefix).  A worker
explores the DFS sub-tree below the prefix for at most `chunk` paths and hands
the unexplored remainder (a list of prefixes) back to the master, which
re-queues it.  The union of all sub-trees is the whole tree; the check only
succeeds when the queue drains (tree exhausted) before the deadline.
"""
import importlib
import os
import sys
import time
import multiprocessing as mp
from concurrent.futures import ProcessPoolExecutor, wait, FIRST_COMPLETED

from . import engine as eng

_W = {}


def _winit(verif_dir):
    os.environ.setdefault("PYTHONHASHSEED", "0")
    if verif_dir not in sys.path:
        sys.path.insert(0, verif_dir)
    import logging
    logging.disable(logging.CRITICAL)
    from . import cover
    cover.start()


def _get_engine(modname, factory, params_key, params):
    key = (modname, factory, params_key)
    e = _W.get(key)
    if e is None:
        mod = importlib.import_module(modname)
        made = getattr(mod, factory)(**params)
        if isinstance(made, tuple):
            h, opts = made
        else:
            h, opts = made, {}
        e = eng.Engine(h, **opts)
        _W.clear()      # one live engine per worker is enough
        _W[key] = e
    return e


def _job(args):
    modname, factory, params_key, params, prefix, chunk, deadline, max_viol = args
    from . import cover
    e = _get_engine(modname, factory, params_key, params)
    e.stats = eng.Stats()
    e.violations = []
    e.samples = []
    t0 = time.time()
    status, msg = "ok", None
    rest = []
    try:
        rest = e.explore(prefix, max_paths=chunk, max_violations=max_viol, deadline=deadline)
    except eng.Concretize as ex:
        status, msg = "inconclusive", "Concretize: %s (choices=%r)" % (ex, getattr(e, "choices", None))
    except eng.Inconclusive as ex:
        status, msg = "inconclusive", str(ex)
    except eng.EngineError as ex:
        status, msg = "engine-error", str(ex)
    return dict(status=status, msg=msg, rest=rest, stats=e.stats,
                violations=[v.as_dict() for v in e.violations],
                samples=e.samples, funcs=cover.drain(), wall=time.time() - t0,
                params_key=params_key)


class Result(object):
    def __init__(self):
        self.stats = eng.Stats()
        self.violations = []      # dicts with params
        self.samples = []
        self.funcs = set()
        self.status = "ok"        # ok | inconclusive | engine-error
        self.messages = []
        self.exhausted = True
        self.wall = 0.0
        self.per_shard = {}

    def merge(self, other):
        self.stats.add(other.stats)
        self.violations += other.violations
        self.samples += other.samples
        self.funcs |= other.funcs
        if other.status != "ok" and self.status == "ok":
            self.status = other.status
        self.messages += other.messages
        self.exhausted = self.exhausted and other.exhausted
        self.wall += other.wall
        self.per_shard.update(other.per_shard)


def explore(modname, shards, nproc=None, chunk=300, budget_s=600,
            max_violations=3, progress=None):
    """Explore every shard (list of (factory, key, params)) of one harness
    module completely.  Returns Result."""
    nproc = nproc or min(16, os.cpu_count() or 1)
    verif_dir = os.path.dirname(os.path.dirname(os.path.abspath(__file__)))
    res = Result()
    t0 = time.time()
    # budgets are wall-clock; on a machine shared with other heavy jobs they
    # can be stretched (the verdict rules are unaffected)
    try:
        budget_s = budget_s * float(os.environ.get("VERIF_BUDGET_SCALE", "1") or 1)
    except ValueError:
        pass
    deadline = t0 + budget_s
    queue = [(modname, factory, key, params, []) for factory, key, params in shards]
    queue.reverse()
    for _, key, _ in shards:
        res.per_shard[key] = 0
    # workers must agree on str hashing (set iteration order decides the
    # order of symbolic comparisons, and prefixes travel between workers)
    os.environ["PYTHONHASHSEED"] = "0"
    ctx = mp.get_context("spawn")
    small = max(20, chunk // 10)
    with ProcessPoolExecutor(max_workers=nproc, mp_context=ctx,
                             initializer=_winit, initargs=(verif_dir,)) as ex:
        running = {}
        stop = False
        while queue or running:
            while queue and len(running) < nproc * 2 and not stop:
                m, f, key, params, prefix = queue.pop()
                # ramp up with small chunks while the queue is short
                c = small if len(queue) + len(running) < nproc * 2 else chunk
                fut = ex.submit(_job, (m, f, key, params, prefix, c, deadline, max_violations))
                running[fut] = (m, f, key, params)
            if not running:
                break
            done, _ = wait(list(running), return_when=FIRST_COMPLETED)
            for fut in done:
                m, f, key, params = running.pop(fut)
                r = fut.result()
                res.stats.add(r["stats"])
                res.per_shard[key] = res.per_shard.get(key, 0) + r["stats"].paths
                res.funcs |= r["funcs"]
                for v in r["violations"]:
                    v["shard"] = key
                    v["params"] = params
                    v["module"] = m
                    v["factory"] = f
                    res.violations.append(v)
                if len(res.samples) < 6:
                    for s in r["samples"][:1]:
                        s["shard"] = key
                        res.samples.append(s)
                if r["status"] != "ok":
                    # this sub-tree cannot be decided; keep exploring the others
                    # (a replayed counterexample elsewhere still counts), but the
                    # run can no longer end as "exhausted"
                    if res.status == "ok":
                        res.status = r["status"]
                    if len(res.messages) < 20:
                        res.messages.append("[%s] %s" % (key, r["msg"]))
                    res.exhausted = False
                    r["rest"] = []
                for p in r["rest"]:
                    queue.append((m, f, key, params, p))
                if len(res.violations) >= max_violations:
                    stop = True
                if time.time() > deadline:
                    stop = True
            if stop and not running:
                break
            if progress and res.stats.paths and int(time.time() - t0) % 10 == 0:
                progress(res, len(queue), len(running))
        if queue:
            res.exhausted = False
    res.wall = time.time() - t0
    if not res.exhausted and res.status == "ok" and not res.violations:
        res.status = "inconclusive"
        res.messages.append("budget of %ds exhausted with %d sub-trees unexplored" % (
            budget_s, len(queue)))
    return res


def explore_inline(made, budget_s=60, max_violations=1, max_paths=None):
    """Explore a (small) harness in this process.  Returns Result."""
    from . import cover
    cover.start()
    if isinstance(made, tuple):
        h, opts = made
    else:
        h, opts = made, {}
    e = eng.Engine(h, **opts)
    res = Result()
    t0 = time.time()
    try:
        rest = e.explore([], max_paths=max_paths, max_violations=max_violations,
                         deadline=t0 + budget_s)
        if rest and not e.violations:
            res.exhausted = False
            res.status = "inconclusive"
            res.messages.append("inline budget exhausted")
    except eng.Concretize as ex:
        res.status = "inconclusive"
        res.messages.append("Concretize: %s" % ex)
    except eng.Inconclusive as ex:
        res.status = "inconclusive"
        res.messages.append(str(ex))
    except eng.EngineError as ex:
        res.status = "engine-error"
        res.messages.append(str(ex))
    res.stats = e.stats
    res.violations = [v.as_dict() for v in e.violations]
    res.samples = e.samples
    res.funcs = cover.drain()
    res.wall = time.time() - t0
    return res
