"""sx -- a small proxy-based symbolic executor on z3 (engine E2 of DESIGN.md).

The harness is an ordinary Python function ``h(E)`` that builds inputs with
``E.int / E.bool / E.scalar / E.choice``, calls the *real* nbdime functions on
them and states obligations with ``E.check(label, P)``.

Symbolic mode: inputs are proxies (values.py) wrapping z3 terms.  Whenever
Python needs the truth value of a proxy comparison (``if``, ``and``, C-level
list/dict equality, ``max`` ...) ``SymBool.__bool__`` calls ``Engine.branch``;
the solver decides which sides are feasible under the path condition, one side
is followed and the other is queued.  Exploration is DFS by re-execution with a
recorded decision prefix.  Each obligation is discharged by the solver for all
values on the path (``pc and not P`` must be unsat).

Concrete mode (shadow run / replay): the same harness runs with plain Python
values taken from a model; no z3 object is created.
"""
import time
import traceback

import z3

CHOICE_BASE = 100


class Concretize(BaseException):
    """A proxy was asked for a concrete value (hash, index, str ...)."""


class PathAbort(BaseException):
    """Infeasible assumption: prune this path."""


class PathDone(BaseException):
    """Stop this path (after a violation or an explicit E.stop())."""


class EngineError(BaseException):
    """Engine-level inconsistency: inconclusive, never success."""


class Inconclusive(BaseException):
    pass


_cur = None
_OBL = [0]      # solver-decided obligations seen by this process (cross-check sampling)


def cur():
    return _cur


class Violation(object):
    def __init__(self, label, info, values, choices, trace):
        self.label = label
        self.info = info
        self.values = values
        self.choices = choices
        self.trace = trace

    def as_dict(self):
        return dict(label=self.label, info=self.info, values=self.values,
                    choices=self.choices)


class Stats(object):
    FIELDS = ("paths", "pruned", "queries", "solver_s", "obligations",
              "discharged", "forks", "forced", "shadow_runs", "nontrivial",
              "known_seen", "crosschecks", "crosscheck_timeouts")

    def __init__(self):
        for f in self.FIELDS:
            setattr(self, f, 0)
        self.goals = {}
        self.known = {}

    def add(self, other):
        for f in self.FIELDS:
            setattr(self, f, getattr(self, f) + getattr(other, f))
        for k, v in other.goals.items():
            self.goals[k] = self.goals.get(k, 0) + v
        for k, v in other.known.items():
            self.known[k] = self.known.get(k, 0) + v

    def as_dict(self):
        d = {f: getattr(self, f) for f in self.FIELDS}
        d["solver_s"] = round(d["solver_s"], 3)
        d["goals"] = dict(self.goals)
        d["known"] = dict(self.known)
        return d


class Engine(object):
    """One engine object explores one harness instance (or a sub-tree of it)."""

    def __init__(self, harness, shadow=True, solver_timeout_ms=20000,
                 allow_render=False, reset=None, shadow_every=1):
        self.harness = harness
        self.shadow = shadow
        self.shadow_every = shadow_every
        import os as _os
        try:
            self.crosscheck_every = int(_os.environ.get("VERIF_CROSSCHECK", "0"))
        except ValueError:
            self.crosscheck_every = 0
        self._obl_count = 0
        self.allow_render = allow_render
        self.reset = reset
        self.solver = z3.Solver()
        self.solver.set("timeout", solver_timeout_ms)
        self.subsolver = z3.Solver()
        self.summary_cache = {}
        self.stats = Stats()
        self.violations = []
        self.samples = []
        self.mode = None
        # per path
        self.sub_added = None
        self.summaries = {}
        self.prefix = []
        self.trace = []
        self.pending = []

    # ------------------------------------------------------------------ API
    @property
    def symbolic(self):
        return self.mode == "sym"

    def _fresh(self, name):
        if name in self.vars:
            raise EngineError("duplicate symbolic variable %r" % name)

    def int(self, name, lo=None, hi=None):
        from . import values as V
        if self.mode == "conc":
            return self.values[name]
        self._fresh(name)
        e = z3.Int(name)
        self.vars[name] = ("int", e)
        if lo is not None:
            self._add(e >= lo)
        if hi is not None:
            self._add(e <= hi)
        return V.SymInt(e)

    def bool(self, name):
        from . import values as V
        if self.mode == "conc":
            return self.values[name]
        self._fresh(name)
        e = z3.Bool(name)
        self.vars[name] = ("bool", e)
        return V.SymBool(e)

    def scalar(self, name, tags=(0, 1, 2, 3), lo=None):
        """A JSON scalar with symbolic type tag (values.NULL/BOOL/INT/FLOAT
        restricted to `tags`) and symbolic integral value."""
        from . import values as V
        if self.mode == "conc":
            return self.values[name]
        self._fresh(name)
        t = z3.Int(name + "!t")
        v = z3.Int(name + "!v")
        self.vars[name] = ("scalar", (t, v))
        self._add(z3.Or([t == k for k in tags]))
        if V.NULL in tags:
            self._add(z3.Implies(t == V.NULL, v == 0))
        if V.BOOL in tags:
            self._add(z3.Implies(t == V.BOOL, z3.And(v >= 0, v <= 1)))
        if lo is not None:
            self._add(v >= lo)
        return V.SymScalar(t, v)

    def token(self, name, literals=False):
        """Opaque symbolic string identity (only ==/!=).  literals=True: the
        string may also coincide with literal strings it is compared with
        (values.SymName)."""
        from . import values as V
        if self.mode == "conc":
            return self.values[name]
        self._fresh(name)
        e = z3.Int(name + "!tok")
        self.vars[name] = ("token", e)
        return V.SymName(e) if literals else V.SymToken(e)

    def choice(self, name, n):
        """n-way enumerated selector (a fork without solver involvement)."""
        if n <= 0:
            raise EngineError("choice over empty range")
        if self.mode == "conc":
            k = self.conc_choices[self.choice_pos]
            self.choice_pos += 1
            return k
        if self.sub_added is not None:
            raise EngineError("E.choice inside a summarised call")
        pos = len(self.trace)
        if pos < len(self.prefix):
            d = self.prefix[pos]
            if d < CHOICE_BASE:
                raise EngineError("replay desynchronised at choice %r" % name)
            k = d - CHOICE_BASE
        else:
            k = 0
            for alt in range(n - 1, 0, -1):
                self.pending.append(self.trace + [CHOICE_BASE + alt])
        self.trace.append(CHOICE_BASE + k)
        self.choices.append(k)
        return k

    def assume(self, c):
        from . import values as V
        if isinstance(c, V.SymBool):
            if self.mode == "conc":
                raise EngineError("symbolic value in concrete mode")
            e = c.e
            if z3.is_true(e):
                return
            if len(self.trace) >= len(self.prefix):
                if not self._feasible(e):
                    self.stats.pruned += 1
                    raise PathAbort()
            self._add(e, keep_model=True)
        elif not c:
            if self.mode == "sym":
                self.stats.pruned += 1
            raise PathAbort()

    def check(self, label, P, info=None):
        """Obligation: P must hold for every value on this path."""
        from . import values as V
        if self.mode == "conc":
            if isinstance(P, V.SymBool):
                raise EngineError("symbolic obligation in concrete mode")
            ok = bool(P)
            self.conc_checks.append((label, ok))
            if not ok:
                self.conc_info = info
                raise PathDone()
            return
        self.stats.obligations += 1
        if isinstance(P, V.SymBool):
            e = P.e
            self.sym_checks.append((label, e))
            r = self._check(z3.Not(e))
            _OBL[0] += 1
            if self.crosscheck_every and _OBL[0] % self.crosscheck_every == 0:
                self._crosscheck(z3.Not(e), r)
            if r == z3.unsat:
                self.stats.discharged += 1
                return
            model = self.solver_model
            self._violation(label, info, model)
        else:
            self.sym_checks.append((label, bool(P)))
            if P:
                self.stats.discharged += 1
                return
            self._violation(label, info, self._model())

    def _crosscheck(self, extra, verdict):
        """Solver hygiene: re-decide this query (path condition + negated
        obligation) with two other solver builds -- the z3 4.8.12 and cvc5
        binaries -- from its SMT-LIB2 export.  A disagreement is an engine
        error; a timeout of the other solver is counted, not trusted."""
        import os
        import subprocess
        import tempfile
        self.solver.push()
        self.solver.add(extra)
        text = self.solver.to_smt2()
        self.solver.pop()
        text = "(set-logic ALL)\n" + "\n".join(
            ln for ln in text.splitlines() if not ln.startswith("(set-info"))
        fd, path = tempfile.mkstemp(suffix=".smt2", prefix="sxcc")
        os.close(fd)
        want = "sat" if verdict == z3.sat else "unsat"
        try:
            with open(path, "w") as f:
                f.write(text + "\n")
            for cmd in (["/usr/bin/z3", "-T:20", path], ["cvc5", "--tlimit=20000", path]):
                try:
                    out = subprocess.run(cmd, capture_output=True, text=True, timeout=40).stdout
                except (OSError, subprocess.TimeoutExpired):
                    self.stats.crosscheck_timeouts += 1
                    continue
                lines = [x.strip() for x in out.splitlines() if x.strip()]
                if "(error" in out or not lines or lines[0] not in ("sat", "unsat"):
                    self.stats.crosscheck_timeouts += 1
                    continue
                if lines[0] != want:
                    raise EngineError("solver disagreement: z3 %s says %s, %s says %s on %s" % (
                        z3.get_version_string(), want, cmd[0], lines[0], path))
                self.stats.crosschecks += 1
        finally:
            try:
                os.unlink(path)
            except OSError:
                pass

    def fail(self, label, info=None):
        self.check(label, False, info)

    def goal(self, name, hit=True):
        """Coverage goal witnessed on this path (vacuity guard)."""
        if self.mode == "sym" and hit:
            self.path_goals.add(name)

    def known(self, fid):
        """A recorded known finding was observed on this path."""
        if self.mode == "sym":
            self.path_known.add(fid)

    def nontrivial(self, flag=True):
        if self.mode == "sym" and flag:
            self.path_nontrivial = True

    def observe(self, label, obj):
        if self.mode == "sym":
            self.sym_obs.append((label, obj))
        else:
            self.conc_obs.append((label, obj))

    def stop(self):
        raise PathDone()

    def summarize(self, fn, args, key):
        """Function summary (state merging) of a pure boolean function of the
        *real* code: all feasible paths of fn(*args) are explored here, under
        the current path condition, and the result is one formula
        OR_i (path-condition_i AND result_i).  The caller then forks once on
        the summary instead of once per internal branch.  Falls back to a
        plain call when a sub-path raises or returns a non-boolean."""
        from . import values as V
        if self.mode != "sym" or self.sub_added is not None:
            return fn(*args)
        hit = self.summary_cache.get(key)
        if hit is not None:
            f = hit[1]
            return V.SymBool(f) if isinstance(f, z3.ExprRef) else f
        # The sub-exploration runs on a separate solver WITHOUT the path
        # condition, so the summary is valid under any path condition and can
        # be cached for the life of the engine.
        outer = (self.prefix, self.trace, self.pending, self.cache, self.solver,
                 self.model, self.model_ok, self.solver_model, self.npc)
        results = []
        stack = [[]]
        ok = True
        try:
            self.solver = self.subsolver
            while stack and ok:
                p = stack.pop()
                self.prefix, self.trace, self.pending = p, [], []
                self.cache = {}
                self.sub_added = []
                self.solver.reset()
                self.model_ok = False
                try:
                    rv = fn(*args)
                except (Concretize, EngineError, Inconclusive, PathAbort, PathDone):
                    raise
                except Exception:  # noqa
                    ok = False
                    rv = None
                finally:
                    added = self.sub_added
                    self.sub_added = None
                if ok and not isinstance(rv, (bool, V.SymBool)):
                    ok = False
                results.append((added, rv))
                stack.extend(self.pending)
                if len(results) > 64:
                    ok = False
        finally:
            (self.prefix, self.trace, self.pending, self.cache, self.solver,
             self.model, self.model_ok, self.solver_model, self.npc) = outer
            self.sub_added = None
        if not ok:
            return fn(*args)
        disj = []
        for added, rv in results:
            if rv is False:
                continue
            conj = list(added)
            if isinstance(rv, V.SymBool):
                conj.append(rv.e)
            disj.append(z3.And(conj) if len(conj) != 1 else conj[0] if conj else z3.BoolVal(True))
        if not disj:
            f = False
        elif len(disj) == len(results) and all(rv is True for _, rv in results):
            f = True
        else:
            f = z3.Or(disj) if len(disj) > 1 else disj[0]
            if z3.is_true(f):
                f = True
        if len(self.summary_cache) > 100000:
            self.summary_cache.clear()
        self.summary_cache[key] = (args, f)     # args kept alive: ids stay unique
        return V.SymBool(f) if isinstance(f, z3.ExprRef) else f

    def instance(self, obj):
        """The model instance of a (partly symbolic) value: every symbolic leaf
        replaced by its value in a model of the current path condition.  Used
        by oracles that must call C code (json, jsonschema)."""
        if self.mode == "conc":
            return obj
        from . import values as V
        return V.concretize(obj, self._model())

    # ------------------------------------------------------------ internals
    def _add(self, e, keep_model=False):
        self.solver.add(e)
        self.npc += 1
        if self.sub_added is not None:
            self.sub_added.append(e)
        if not keep_model:
            self.model_ok = False

    def _check(self, extra=None):
        t0 = time.perf_counter()
        if extra is None:
            r = self.solver.check()
        else:
            self.solver.push()
            self.solver.add(extra)
            r = self.solver.check()
        if r == z3.sat:
            self.solver_model = self.solver.model()
        if extra is not None:
            self.solver.pop()
        self.stats.queries += 1
        self.stats.solver_s += time.perf_counter() - t0
        if r == z3.unknown:
            raise Inconclusive("solver returned unknown: %s" % self.solver.reason_unknown())
        return r

    def _model(self):
        if not self.model_ok:
            r = self._check()
            if r != z3.sat:
                raise EngineError("path condition became unsatisfiable")
            self.model = self.solver_model
            self.model_ok = True
        return self.model

    def _feasible(self, e):
        """Is pc and e satisfiable?  Updates self.model to a model of pc and e
        when it is."""
        m = self._model()
        if z3.is_true(m.eval(e, model_completion=True)):
            return True
        r = self._check(e)
        if r == z3.sat:
            self.model = self.solver_model
            return True
        return False

    def branch(self, e):
        """Decide the truth value of z3 Bool term e on this path."""
        if self.mode != "sym":
            raise EngineError("symbolic branch outside symbolic mode")
        neg = False
        while z3.is_not(e):
            e = e.arg(0)
            neg = not neg
        if z3.is_true(e):
            return not neg
        if z3.is_false(e):
            return neg
        key = e.get_id()
        d = self.cache.get(key)
        if d is None:
            d = self._decide(e)
            self.cache[key] = d
            self.keep.append(e)
        return (not d) if neg else d

    def _decide(self, e):
        pos = len(self.trace)
        if pos < len(self.prefix):
            d = self.prefix[pos]
            if d >= CHOICE_BASE:
                raise EngineError("replay desynchronised at branch")
            self._add(e if d else z3.Not(e))
            self.trace.append(d)
            return bool(d)
        m = self._model()
        mv = z3.is_true(m.eval(e, model_completion=True))
        other = z3.Not(e) if mv else e
        r = self._check(other)
        if r == z3.sat:
            # both sides feasible: follow True, queue False
            self.stats.forks += 1
            self.pending.append(self.trace + [0])
            if not mv:
                self.model = self.solver_model
            self._add(e, keep_model=True)
            self.trace.append(1)
            return True
        # forced
        self.stats.forced += 1
        self._add(e if mv else z3.Not(e), keep_model=True)
        self.trace.append(1 if mv else 0)
        return mv

    def _model_values(self, model):
        from . import values as V
        vals = {}
        for name, (kind, e) in self.vars.items():
            if kind == "int":
                vals[name] = model.eval(e, model_completion=True).as_long()
            elif kind == "bool":
                vals[name] = z3.is_true(model.eval(e, model_completion=True))
            elif kind == "token":
                vals[name] = V.token_text(model.eval(e, model_completion=True).as_long())
            else:
                t = model.eval(e[0], model_completion=True).as_long()
                v = model.eval(e[1], model_completion=True).as_long()
                vals[name] = V.scalar_to_python(t, v)
        return vals

    def _violation(self, label, info, model):
        self.path_violation = (label, info, model)
        raise PathDone()

    # ------------------------------------------------------------ execution
    def _begin(self, mode):
        global _cur
        _cur = self
        self.mode = mode
        if self.reset is not None:
            self.reset()

    def run_path(self, prefix):
        """Execute one path symbolically, following `prefix` then exploring."""
        self._begin("sym")
        self.prefix = prefix
        self.trace = []
        self.choices = []
        self.vars = {}
        self.cache = {}
        self.keep = []
        self.npc = 0
        self.model_ok = False
        self.model = None
        self.solver_model = None
        self.sym_checks = []
        self.sym_obs = []
        self.path_goals = set()
        self.path_known = set()
        self.path_nontrivial = False
        self.path_violation = None
        self.sub_added = None
        self.summaries = {}
        self.solver.reset()
        self.solver.set("timeout", 20000)
        aborted = False
        try:
            self.harness(self)
        except PathAbort:
            aborted = True
        except PathDone:
            pass
        except (Concretize, EngineError, Inconclusive):
            raise
        except Exception as ex:  # noqa: an escaping exception is a finding candidate
            tb = traceback.extract_tb(ex.__traceback__)
            where = "%s:%d %s" % (tb[-1].filename, tb[-1].lineno, tb[-1].name) if tb else "?"
            info = "%s: %s @ %s" % (type(ex).__name__, str(ex)[:300], where)
            self.stats.obligations += 1
            self.sym_checks.append(("uncaught-exception", False))
            self.path_violation = ("uncaught-exception", info, self._model())
        finally:
            self.mode = None
        if len(self.trace) < len(prefix):
            raise EngineError("replay ended before its prefix was consumed")
        if aborted:
            return
        self.stats.paths += 1
        for g in self.path_goals:
            self.stats.goals[g] = self.stats.goals.get(g, 0) + 1
        for k in self.path_known:
            self.stats.known[k] = self.stats.known.get(k, 0) + 1
        if self.path_nontrivial:
            self.stats.nontrivial += 1
        if self.path_violation is not None:
            label, info, model = self.path_violation
            vals = self._model_values(model)
            conc = self.run_concrete(vals, list(self.choices))
            replayed = (conc["checks"] and conc["checks"][-1][1] is False
                        and conc["checks"][-1][0] == label)
            if not replayed:
                raise Inconclusive(
                    "counterexample for %r did not replay concretely: values=%r "
                    "choices=%r concrete=%r info=%r" % (
                        label, vals, self.choices, conc["checks"], info))
            if conc.get("info") is not None:
                info = conc["info"]
            self.violations.append(Violation(label, info, vals, list(self.choices),
                                             list(self.trace)))
        elif self.shadow and (self.shadow_every <= 1 or
                              (sum(self.trace) + len(self.trace)) % self.shadow_every == 0):
            self._shadow()
        if len(self.samples) < 3 and not self.path_violation:
            self._sample()

    def _sample(self):
        try:
            m = self._model()
            self.samples.append(dict(
                choices=list(self.choices),
                model=_jsonable(self._model_values(m)),
                path_condition_terms=self.npc,
                obligations=[l for l, _ in self.sym_checks]))
        except BaseException:
            pass

    def _shadow(self):
        from . import values as V
        model = self._model()
        vals = self._model_values(model)
        sym_checks = list(self.sym_checks)
        sym_obs = list(self.sym_obs)
        conc = self.run_concrete(vals, list(self.choices))
        self.stats.shadow_runs += 1
        exp = []
        for label, e in sym_checks:
            if isinstance(e, bool):
                exp.append((label, e))
            else:
                exp.append((label, z3.is_true(model.eval(e, model_completion=True))))
        if exp != conc["checks"]:
            raise EngineError(
                "shadow run disagrees with symbolic run: values=%r choices=%r "
                "symbolic=%r concrete=%r" % (vals, self.choices, exp, conc["checks"]))
        if len(sym_obs) != len(conc["obs"]):
            raise EngineError("shadow run observed %d values, symbolic run %d" % (
                len(conc["obs"]), len(sym_obs)))
        for (l1, so), (l2, co) in zip(sym_obs, conc["obs"]):
            sv = V.concretize(so, model)
            if l1 != l2 or not V.strict_equal(sv, co):
                raise EngineError(
                    "shadow run output differs at %r: values=%r choices=%r\n"
                    " symbolic-under-model=%r\n concrete=%r" % (
                        l1, vals, self.choices, sv, co))

    def run_concrete(self, values, choices):
        """Run the harness on plain Python values.  Returns the obligations
        evaluated in order."""
        self._begin("conc")
        self.values = values
        self.conc_choices = choices
        self.choice_pos = 0
        self.conc_checks = []
        self.conc_obs = []
        self.conc_info = None
        try:
            self.harness(self)
        except PathDone:
            pass
        except PathAbort:
            self.conc_checks.append(("assumption-failed", False))
        except Exception as ex:  # noqa
            tb = traceback.extract_tb(ex.__traceback__)
            where = "%s:%d %s" % (tb[-1].filename, tb[-1].lineno, tb[-1].name) if tb else "?"
            self.conc_checks.append(("uncaught-exception", False))
            self.conc_info = "%s: %s @ %s" % (type(ex).__name__, str(ex)[:300], where)
        finally:
            self.mode = None
        return dict(checks=self.conc_checks, obs=self.conc_obs, info=self.conc_info)

    def explore(self, prefix=None, max_paths=None, max_violations=5, deadline=None):
        """DFS over the sub-tree below `prefix`.  Returns the list of
        unexplored prefixes (empty when the sub-tree is exhausted)."""
        stack = [list(prefix or [])]
        n = 0
        while stack:
            if max_paths is not None and n >= max_paths:
                break
            if deadline is not None and time.time() > deadline:
                break
            if len(self.violations) >= max_violations:
                break
            p = stack.pop()
            self.pending = []
            self.run_path(p)
            n += 1
            # deepest alternatives last so that DFS continues near this path
            stack.extend(self.pending)
        return stack


def _jsonable(x):
    if isinstance(x, dict):
        return {str(k): _jsonable(v) for k, v in x.items()}
    if isinstance(x, (list, tuple)):
        return [_jsonable(v) for v in x]
    if isinstance(x, (str, int, float, bool)) or x is None:
        return x
    return repr(x)
