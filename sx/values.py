"""Symbolic value proxies for sx, and the symbolic-aware JSON predicates.

SymBool / SymInt wrap z3 Bool / Int terms (Python ints are unbounded, so
mathematical integers).  SymScalar is a JSON scalar whose type tag in
{null, bool, int, float} and integral value are both symbolic; ``==`` follows
CPython (True == 1 == 1.0, None equals only None), JSON identity additionally
needs equal tags.  Anything that needs a concrete value without branching
raises Concretize (inconclusive), except text rendering when the engine was
created with allow_render (C16 only).
"""
import z3

from . import engine as _eng
from .engine import Concretize

NULL, BOOL, INT, FLOAT = 0, 1, 2, 3
TAGNAMES = {NULL: "null", BOOL: "bool", INT: "int", FLOAT: "float"}


def scalar_to_python(t, v):
    if t == NULL:
        return None
    if t == BOOL:
        return bool(v)
    if t == INT:
        return int(v)
    return float(v)


def _E():
    return _eng._cur


class SymBool(object):
    __slots__ = ("e",)

    def __init__(self, e):
        self.e = e

    def __bool__(self):
        return _E().branch(self.e)

    def __and__(self, o):
        return land(self, o)

    __rand__ = __and__

    def __or__(self, o):
        return lor(self, o)

    __ror__ = __or__

    def __invert__(self):
        return lnot(self)

    def __eq__(self, o):
        if isinstance(o, SymBool):
            return SymBool(self.e == o.e)
        if isinstance(o, bool):
            return SymBool(self.e if o else z3.Not(self.e))
        if isinstance(o, (int, float)):
            return SymBool(z3.If(self.e, 1, 0) == _num(o)) if float(o).is_integer() else False
        if isinstance(o, SymInt):
            return SymBool(z3.If(self.e, 1, 0) == o.e)
        if isinstance(o, SymScalar):
            return o.__eq__(self)
        return False

    def __ne__(self, o):
        return lnot(self.__eq__(o))

    def __hash__(self):
        raise Concretize("hash(SymBool)")

    def __deepcopy__(self, memo):
        return self

    def __copy__(self):
        return self

    def _render(self):
        return _render(self)

    __repr__ = __str__ = _render

    def __format__(self, spec):
        return format(_render_value(self), spec)


def _num(o):
    return int(o)


def _int_term(o):
    """z3 Int term for an int-like operand, or None."""
    if isinstance(o, SymInt):
        return o.e
    if isinstance(o, bool):
        return z3.IntVal(int(o))
    if isinstance(o, int):
        return z3.IntVal(o)
    if isinstance(o, float) and o.is_integer():
        return z3.IntVal(int(o))
    if isinstance(o, SymBool):
        return z3.If(o.e, 1, 0)
    return None


class SymInt(object):
    __slots__ = ("e",)

    def __init__(self, e):
        self.e = e

    # arithmetic
    def __add__(self, o):
        t = _int_term(o)
        return NotImplemented if t is None else SymInt(self.e + t)

    __radd__ = __add__

    def __sub__(self, o):
        t = _int_term(o)
        return NotImplemented if t is None else SymInt(self.e - t)

    def __rsub__(self, o):
        t = _int_term(o)
        return NotImplemented if t is None else SymInt(t - self.e)

    def __mul__(self, o):
        t = _int_term(o)
        return NotImplemented if t is None else SymInt(self.e * t)

    __rmul__ = __mul__

    def __neg__(self):
        return SymInt(-self.e)

    def __pos__(self):
        return self

    # comparisons
    def __eq__(self, o):
        if isinstance(o, SymScalar):
            return o.__eq__(self)
        t = _int_term(o)
        if t is None:
            return False
        return SymBool(self.e == t)

    def __ne__(self, o):
        return lnot(self.__eq__(o))

    def _cmp(self, o, f):
        if isinstance(o, SymScalar):
            return NotImplemented
        t = _int_term(o)
        if t is None:
            if isinstance(o, float):
                raise Concretize("SymInt ordered against non-integral float")
            return NotImplemented
        return SymBool(f(self.e, t))

    def __lt__(self, o):
        return self._cmp(o, lambda a, b: a < b)

    def __le__(self, o):
        return self._cmp(o, lambda a, b: a <= b)

    def __gt__(self, o):
        return self._cmp(o, lambda a, b: a > b)

    def __ge__(self, o):
        return self._cmp(o, lambda a, b: a >= b)

    def __bool__(self):
        return _E().branch(self.e != 0)

    def __hash__(self):
        raise Concretize("hash(SymInt)")

    def __index__(self):
        return int(_render_value(self))

    def __int__(self):
        return int(_render_value(self))

    def __deepcopy__(self, memo):
        return self

    def __copy__(self):
        return self

    def _render(self):
        return _render(self)

    __repr__ = __str__ = _render

    def __format__(self, spec):
        return format(_render_value(self), spec)


class SymScalar(object):
    """JSON scalar with symbolic type tag and symbolic integral value."""
    __slots__ = ("t", "v")

    def __init__(self, t, v):
        self.t = t
        self.v = v

    def __eq__(self, o):
        if isinstance(o, SymScalar):
            return SymBool(z3.Or(
                z3.And(self.t == NULL, o.t == NULL),
                z3.And(self.t != NULL, o.t != NULL, self.v == o.v)))
        if o is None:
            return SymBool(self.t == NULL)
        t = _int_term(o)
        if t is None:
            return False
        return SymBool(z3.And(self.t != NULL, self.v == t))

    def __ne__(self, o):
        return lnot(self.__eq__(o))

    def _cmp(self, o, f, opname):
        if isinstance(o, SymScalar):
            ot, ov = o.t, o.v
            onull = SymBool(ot == NULL)
        elif o is None:
            onull, ov = True, None
        else:
            ov = _int_term(o)
            if ov is None:
                if isinstance(o, float):
                    raise Concretize("SymScalar ordered against non-integral float")
                raise TypeError("'%s' not supported between scalar and %s" % (
                    opname, type(o).__name__))
            onull = False
        # faithful to CPython: ordering None raises TypeError
        if SymBool(self.t == NULL) or onull:
            raise TypeError("'%s' not supported between instances of 'NoneType' and "
                            "a number" % opname)
        return SymBool(f(self.v, ov))

    def __lt__(self, o):
        return self._cmp(o, lambda a, b: a < b, "<")

    def __le__(self, o):
        return self._cmp(o, lambda a, b: a <= b, "<=")

    def __gt__(self, o):
        return self._cmp(o, lambda a, b: a > b, ">")

    def __ge__(self, o):
        return self._cmp(o, lambda a, b: a >= b, ">=")

    def __bool__(self):
        return _E().branch(z3.And(self.t != NULL, self.v != 0))

    def __hash__(self):
        raise Concretize("hash(SymScalar)")

    def __index__(self):
        v = _render_value(self)
        if not isinstance(v, int):
            raise TypeError("'%s' object cannot be interpreted as an integer" % type(v).__name__)
        return int(v)

    def __int__(self):
        return int(_render_value(self))

    def __float__(self):
        return float(_render_value(self))

    def __deepcopy__(self, memo):
        return self

    def __copy__(self):
        return self

    def _render(self):
        return _render(self)

    __repr__ = __str__ = _render

    def __format__(self, spec):
        return format(_render_value(self), spec)


class SymToken(object):
    """Opaque symbolic string identity: supports only == and !=."""
    __slots__ = ("e",)

    def __init__(self, e):
        self.e = e

    def __eq__(self, o):
        if isinstance(o, SymToken):
            return SymBool(self.e == o.e)
        return False

    def __ne__(self, o):
        return lnot(self.__eq__(o))

    def __hash__(self):
        raise Concretize("hash(SymToken)")

    def __deepcopy__(self, memo):
        return self

    def __copy__(self):
        return self

    def __repr__(self):
        return "<SymToken %s>" % self.e

    def __fspath__(self):
        raise Concretize("fspath(SymToken)")


_LITERALS = {}


def literal_code(s):
    """Reserved (negative) token value standing for the literal string s;
    derived from the text so that every worker and every re-execution agrees."""
    import hashlib
    c = -(1 + int(hashlib.sha1(s.encode("utf8")).hexdigest()[:12], 16))
    _LITERALS[c] = s
    return c


def token_text(n):
    """Concrete string of a token value: the literal it coincides with, or a
    fresh name."""
    return _LITERALS.get(n, "tok%d" % n)


class SymName(SymToken):
    """Symbolic string that the code under test only moves around and compares
    for equality -- also with *literal* strings ("nbdime"): x == "lit" is the
    formula x = code("lit"), so the solver considers both the case that the
    unknown string is that literal and the case that it is anything else."""
    __slots__ = ()

    def __eq__(self, o):
        if isinstance(o, SymToken):
            return SymBool(self.e == o.e)
        if isinstance(o, str):
            return SymBool(self.e == literal_code(o))
        return False

    def __ne__(self, o):
        return lnot(self.__eq__(o))

    __hash__ = SymToken.__hash__


SYM = (SymBool, SymInt, SymScalar, SymToken)


def _render_value(x):
    E = _E()
    if E is None or not E.allow_render or E.mode != "sym":
        raise Concretize("text rendering of %s" % type(x).__name__)
    m = E._model()
    return concretize(x, m)


def _render(x):
    return repr(_render_value(x))


# ---------------------------------------------------------------- logic
def land(*xs):
    es = []
    for x in xs:
        if isinstance(x, SymBool):
            es.append(x.e)
        elif not x:
            return False
    if not es:
        return True
    return SymBool(es[0] if len(es) == 1 else z3.And(es))


def lor(*xs):
    es = []
    for x in xs:
        if isinstance(x, SymBool):
            es.append(x.e)
        elif x:
            return True
    if not es:
        return False
    return SymBool(es[0] if len(es) == 1 else z3.Or(es))


def lnot(x):
    if isinstance(x, SymBool):
        return SymBool(z3.Not(x.e))
    return not x


def implies(a, b):
    return lor(lnot(a), b)


def iff(a, b):
    return land(implies(a, b), implies(b, a))


# ---------------------------------------------------- JSON predicates
def _leaf(x):
    """(tag, value) of a JSON scalar leaf; tag/value are python or z3."""
    if isinstance(x, SymScalar):
        return x.t, x.v
    if isinstance(x, SymInt):
        return INT, x.e
    if isinstance(x, SymBool):
        return BOOL, z3.If(x.e, 1, 0)
    if x is None:
        return NULL, 0
    if isinstance(x, bool):
        return BOOL, int(x)
    if isinstance(x, int):
        return INT, x
    if isinstance(x, float):
        return FLOAT, (int(x) if x.is_integer() else x)
    return None


def _eqterm(a, b):
    """a == b for python/z3 operands -> bool or z3 Bool."""
    if isinstance(a, z3.ExprRef) or isinstance(b, z3.ExprRef):
        if isinstance(a, float) or isinstance(b, float):
            return False  # non-integral float never equals an integral symbolic value
        return a == b
    return a == b


def json_identical(x, y):
    """Same JSON document: same structure and keys, leaves equal *and of the
    same JSON type* (bool != int != float).  Returns bool or SymBool."""
    if isinstance(x, dict):
        if not isinstance(y, dict) or set(x.keys()) != set(y.keys()):
            return False
        return land(*[json_identical(x[k], y[k]) for k in x])
    if isinstance(x, (list, tuple)):
        if not isinstance(y, (list, tuple)) or len(x) != len(y):
            return False
        return land(*[json_identical(a, b) for a, b in zip(x, y)])
    if isinstance(x, str):
        return isinstance(y, str) and x == y
    if isinstance(y, (dict, list, tuple, str)):
        return False
    if isinstance(x, SymToken) or isinstance(y, SymToken):
        if isinstance(x, SymToken) and isinstance(y, SymToken):
            return SymBool(x.e == y.e)
        return False
    lx, ly = _leaf(x), _leaf(y)
    if lx is None or ly is None:
        raise TypeError("not a JSON value: %r / %r" % (type(x), type(y)))
    te = _eqterm(lx[0], ly[0])
    ve = _eqterm(lx[1], ly[1])
    return land(_wrap(te), _wrap(ve))


def same_key_order(x, y):
    """Do the objects of two JSON documents list their keys in the same order
    (the text json.dumps produces without sort_keys)?  Concrete bool."""
    if isinstance(x, dict):
        if not isinstance(y, dict) or list(x.keys()) != list(y.keys()):
            return False
        return all(same_key_order(x[k], y[k]) for k in x)
    if isinstance(x, (list, tuple)):
        if not isinstance(y, (list, tuple)) or len(x) != len(y):
            return False
        return all(same_key_order(a, b) for a, b in zip(x, y))
    return True


def unchanged(x, snap):
    """x still serialises to the JSON text it had when snap = snapshot(x) was
    taken: same document (json_identical) with the keys in the same order."""
    if not same_key_order(x, snap):
        return False
    return json_identical(x, snap)


def _wrap(t):
    if isinstance(t, z3.ExprRef):
        if z3.is_true(t):
            return True
        if z3.is_false(t):
            return False
        return SymBool(t)
    return bool(t)


def py_equal(x, y):
    """Python == lifted to a formula (no forking)."""
    if isinstance(x, dict):
        if not isinstance(y, dict) or set(x.keys()) != set(y.keys()):
            return False
        return land(*[py_equal(x[k], y[k]) for k in x])
    if isinstance(x, (list, tuple)):
        if type(x) is not type(y) and not (isinstance(x, list) and isinstance(y, list)):
            return False
        if len(x) != len(y):
            return False
        return land(*[py_equal(a, b) for a, b in zip(x, y)])
    if isinstance(y, (dict, list, tuple)):
        return False
    r = (x == y)
    return r if isinstance(r, SymBool) else bool(r)


def concretize(obj, model):
    """Instantiate every symbolic leaf of obj with its value in model."""
    if isinstance(obj, dict):
        return {k: concretize(v, model) for k, v in obj.items()}
    if isinstance(obj, (list, tuple)):
        return [concretize(v, model) for v in obj]
    if isinstance(obj, SymScalar):
        t = model.eval(obj.t, model_completion=True).as_long()
        v = model.eval(obj.v, model_completion=True).as_long()
        return scalar_to_python(t, v)
    if isinstance(obj, SymInt):
        return model.eval(obj.e, model_completion=True).as_long()
    if isinstance(obj, SymBool):
        return z3.is_true(model.eval(obj.e, model_completion=True))
    if isinstance(obj, SymToken):
        return token_text(model.eval(obj.e, model_completion=True).as_long())
    return obj


def strict_equal(x, y):
    """Concrete JSON identity (types of scalars included)."""
    if isinstance(x, dict):
        return (isinstance(y, dict) and set(x) == set(y)
                and all(strict_equal(x[k], y[k]) for k in x))
    if isinstance(x, (list, tuple)):
        return (isinstance(y, (list, tuple)) and len(x) == len(y)
                and all(strict_equal(a, b) for a, b in zip(x, y)))
    if isinstance(y, (dict, list, tuple)):
        return False
    return type(x) is type(y) and x == y


def has_symbolic(obj):
    if isinstance(obj, dict):
        return any(has_symbolic(v) for v in obj.values())
    if isinstance(obj, (list, tuple)):
        return any(has_symbolic(v) for v in obj)
    return isinstance(obj, SYM)


def snapshot(obj):
    """Structural copy: new containers, the same leaves."""
    if isinstance(obj, dict):
        return {k: snapshot(v) for k, v in obj.items()}
    if isinstance(obj, (list, tuple)):
        return [snapshot(v) for v in obj]
    return obj


# ------------------------------------------------------------ isinstance stub
import builtins as _builtins

_NoneType = type(None)
_TAGSETS = {bool: (BOOL,), int: (BOOL, INT), float: (FLOAT,), _NoneType: (NULL,),
            object: (NULL, BOOL, INT, FLOAT)}


def _tags_for(cls):
    if cls in _TAGSETS:
        return _TAGSETS[cls]
    try:
        import numbers
        if cls in (numbers.Number, numbers.Complex, numbers.Real):
            return (BOOL, INT, FLOAT)
        if cls in (numbers.Integral, numbers.Rational):
            return (BOOL, INT)
    except ImportError:
        pass
    return ()


def sym_isinstance(x, cls):
    """Drop-in for builtins.isinstance inside nbdime's modules (installed by
    harness/common.install_stubs): identical on ordinary objects; on a
    SymScalar it asks the solver about the type tag (forking only when both
    answers are feasible); SymInt is an int, SymBool a bool."""
    tx = type(x)
    if tx is SymScalar:
        classes = cls if _builtins.isinstance(cls, tuple) else (cls,)
        tags = set()
        for c in classes:
            tags.update(_tags_for(c))
        if not tags:
            return False
        if len(tags) == 4:
            return True
        return SymBool(z3.Or([x.t == k for k in sorted(tags)]))   # lazy: forks only if its truth value is needed
    if tx is SymInt:
        classes = cls if _builtins.isinstance(cls, tuple) else (cls,)
        return any(c in (int, object) or INT in _tags_for(c) and c is not bool for c in classes)
    if tx is SymBool:
        classes = cls if _builtins.isinstance(cls, tuple) else (cls,)
        return any(c in (bool, int, object) or BOOL in _tags_for(c) for c in classes)
    return _builtins.isinstance(x, cls)


def _arg_key(a):
    if isinstance(a, SymScalar):
        return ("s", a.t.get_id(), a.v.get_id())
    if isinstance(a, (SymInt, SymBool, SymToken)):
        return ("e", a.e.get_id())
    return None


def summarized(fn):
    """Wrap a pure boolean function of scalar arguments so that sx explores it
    once per call and forks on its summary (Engine.summarize).  Calls with no
    symbolic argument, and concrete-mode calls, go straight to fn."""
    def wrapper(*args):
        E = _E()
        if E is None or E.mode != "sym":
            return fn(*args)
        keys = [_arg_key(a) for a in args]
        if all(k is None for k in keys):
            return fn(*args)
        if any(k is None and isinstance(a, (list, dict)) for k, a in zip(keys, args)):
            return fn(*args)
        key = (id(fn),) + tuple(k if k is not None else ("c", repr(a)) for k, a in zip(keys, args))
        return E.summarize(fn, args, key)
    wrapper.__wrapped__ = fn
    wrapper.__name__ = getattr(fn, "__name__", "summarized")
    wrapper._sx_summarized = True
    return wrapper


def describe(obj):
    """Printable form of a (partly symbolic) value: symbolic leaves shown as
    their solver terms.  Never concretises."""
    if isinstance(obj, dict):
        return "{" + ", ".join("%r: %s" % (k, describe(v)) for k, v in obj.items()) + "}"
    if isinstance(obj, (list, tuple)):
        return "[" + ", ".join(describe(v) for v in obj) + "]"
    if isinstance(obj, SymScalar):
        return "<sym %s>" % obj.v
    if isinstance(obj, (SymInt, SymBool, SymToken)):
        return "<sym %s>" % obj.e
    return repr(obj)
