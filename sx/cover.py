"""Which nbdime functions were executed during exploration ("functions
encoded"): sys.monitoring PY_START with DISABLE after the first hit, so the
overhead is one callback per code object."""
import sys

_seen = set()
_new = set()
_started = False
TOOL = None


def _on_start(code, offset):
    fn = code.co_filename
    i = fn.find("/nbdime/")
    if i >= 0 and "/tests/" not in fn:
        name = "%s:%s" % (fn[i + 1:], code.co_qualname)
        if name not in _seen:
            _seen.add(name)
            _new.add(name)
    return sys.monitoring.DISABLE


def start():
    global _started, TOOL
    if _started or not hasattr(sys, "monitoring"):
        return
    mon = sys.monitoring
    for tid in (mon.COVERAGE_ID, 3, 4):
        try:
            mon.use_tool_id(tid, "sx-cover")
            TOOL = tid
            break
        except ValueError:
            continue
    if TOOL is None:
        return
    mon.register_callback(TOOL, mon.events.PY_START, _on_start)
    mon.set_events(TOOL, mon.events.PY_START)
    _started = True


def drain():
    out = set(_new)
    _new.clear()
    return out


def seen():
    return set(_seen)
