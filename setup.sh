#!/bin/sh
# Build /verif/.venv: an overlay of /venv (python 3.12 + nbdime's dependencies)
# with z3-solver and crosshair-tool from the offline wheelhouse.  No network.
# Idempotent; safe to call concurrently (flock).
set -e
cd "$(dirname "$0")"
V=/verif/.venv
exec 9>/verif/.venv.lock
flock 9
if [ -x "$V/bin/python" ] && "$V/bin/python" -c "import z3, crosshair, nbformat, jsonschema" 2>/dev/null; then
    exit 0
fi
rm -rf "$V"
/venv/bin/python -m venv "$V"
SP=$("$V/bin/python" -c "import sysconfig; print(sysconfig.get_paths()['purelib'])")
cat > "$SP/verif_overlay.pth" <<EOF
import site; site.addsitedir('/venv/lib/python3.12/site-packages')
/repo
EOF
PIP_NO_INDEX=1 "$V/bin/python" -m pip install -q --no-index --find-links /opt/veriftools/wheels z3-solver crosshair-tool >/dev/null
"$V/bin/python" -c "import z3, crosshair, nbformat, jsonschema, nbdime; print('verif venv ok', z3.get_version_string())"
