"""CrossHair conditions (engine E1): the same real nbdime functions, driven by
CrossHair's own symbolic execution with List[int] arguments whose *lengths*
are symbolic too.  Inputs are materialised into real lists first (CrossHair's
lazy symbolic slices compared unequal in round 0 and produced a
counterexample that did not replay).  Each function's docstring carries the
PEP316 contract that `crosshair check` tries to refute."""
from typing import List

import nbdime
from nbdime.diffing.seq_bruteforce import diff_sequence_bruteforce
from nbdime.diffing.lcs import diff_from_lcs
from nbdime.patching import patch_list
from nbdime.merging.generic import decide_merge
from nbdime.merging.decisions import apply_decisions


def _mat(xs: List[int]) -> List[int]:
    return [v for v in xs]


def roundtrip_bruteforce(a: List[int], b: List[int]) -> bool:
    """
    pre: len(a) <= 3 and len(b) <= 3
    post: _ == True
    """
    a, b = _mat(a), _mat(b)
    d = diff_sequence_bruteforce(a, b)
    return patch_list(a, d) == b


def roundtrip_generic(a: List[int], b: List[int]) -> bool:
    """
    pre: len(a) <= 3 and len(b) <= 2
    post: _ == True
    """
    a, b = _mat(a), _mat(b)
    d = nbdime.diff(a, b)
    return nbdime.patch(a, d) == b and ((len(d) == 0) == (a == b))


def adoption(b: List[int], x: List[int]) -> bool:
    """
    pre: len(b) <= 2 and len(x) <= 2
    post: _ == True
    """
    b, x = _mat(b), _mat(x)
    ds = decide_merge(b, x, b)
    return (not any(d.conflict for d in ds)) and apply_decisions(b, ds) == x


def agreement(b: List[int], x: List[int]) -> bool:
    """
    pre: len(b) <= 2 and len(x) <= 3
    post: _ == True
    """
    b, x = _mat(b), _mat(x)
    ds = decide_merge(b, x, x)
    return (not any(d.conflict for d in ds)) and apply_decisions(b, ds) == x


def lcs_prestate(A: List[int], B: List[int], Ai: List[int], Bi: List[int]) -> bool:
    """
    pre: len(A) <= 3 and len(B) <= 3 and len(Ai) == len(Bi) and len(Ai) <= 3
    pre: all(0 <= i < len(A) for i in Ai) and all(0 <= j < len(B) for j in Bi)
    pre: all(Ai[k] < Ai[k + 1] for k in range(len(Ai) - 1))
    pre: all(Bi[k] < Bi[k + 1] for k in range(len(Bi) - 1))
    pre: all(A[Ai[k]] == B[Bi[k]] for k in range(len(Ai)))
    post: _ == True
    """
    A, B, Ai, Bi = _mat(A), _mat(B), _mat(Ai), _mat(Bi)
    d = diff_from_lcs(A, B, Ai, Bi)
    keys = [e.key for e in d]
    return patch_list(A, d) == B and keys == sorted(keys)
