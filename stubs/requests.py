"""Stand-in for requests (not installed): import-only."""


def get(*a, **k):
    raise NotImplementedError("requests stand-in")
