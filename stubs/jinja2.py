"""Stand-in for jinja2 (not installed in the sandbox): only the names that
nbdime.webapp imports.  Used by the C19 harness so that the real
_build_arg_parser functions of the web entry points can be imported; no
handler code is executed through it."""


class FileSystemLoader(object):
    def __init__(self, *a, **k):
        pass


class Environment(object):
    def __init__(self, *a, **k):
        pass

    def get_template(self, name):
        raise NotImplementedError("jinja2 stand-in")
