def url_path_join(*pieces):
    return "/" + "/".join(p.strip("/") for p in pieces if p.strip("/"))
