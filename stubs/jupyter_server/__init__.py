"""Stand-in for jupyter_server (not installed): import-only."""
