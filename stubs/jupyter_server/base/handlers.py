from tornado import web


class JupyterHandler(web.RequestHandler):
    pass


class APIHandler(JupyterHandler):
    pass
